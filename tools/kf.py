#!/usr/bin/env python3
"""Maintain known_findings.json.
  kf.py fixed <PROP> <commit> <replay-or-> <what...>
  kf.py open  <PROP> <id> <facet> <clause> <klass|prefix:...> <replay> <what...>
"""
import json, os, sys
ROOT = os.path.dirname(os.path.dirname(os.path.abspath(__file__)))
P = os.path.join(ROOT, "known_findings.json")
data = json.load(open(P))
kind = sys.argv[1]
if kind == "fixed":
    prop, commit, replay = sys.argv[2:5]
    what = " ".join(sys.argv[5:])
    e = {"status": "fixed", "property": prop, "commit": commit, "what": what,
         "line": f"fixed: property={prop} {commit} {what}"}
    if replay != "-":
        e["replay"] = replay
    data["entries"].append(e)
elif kind == "open":
    prop, kid, facet, clause, klass, replay = sys.argv[2:8]
    what = " ".join(sys.argv[8:])
    m = {"facet": facet, "clause": clause}
    if clause == "*":
        del m["clause"]
    if klass.startswith("prefix:"):
        m["klass_prefix"] = klass[7:]
    elif klass.startswith("contains:"):
        m["klass_contains"] = klass[9:]
    else:
        m["klass"] = klass
    e = {"status": "open", "id": kid, "property": prop, "match": m, "what": what,
         "line": f"KNOWN-FINDING: property={prop} {what}"}
    if replay != "-":
        e["replay"] = replay
    data["entries"].append(e)
json.dump(data, open(P, "w"), indent=1)
