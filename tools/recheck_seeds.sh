#!/bin/bash
# Re-runs the quick check of every stored seeded change (seeded/<id>/) against the current checks.
cd "$(dirname "$0")/.." || exit 2
rc=0
for d in seeded/*/; do
  sid=$(basename $d); prop=${sid%%-*}
  if [ -f $d/UNCAUGHT ]; then echo "$sid: not caught by design ($(head -1 $d/UNCAUGHT))"; continue; fi
  if [ -f $d/OBSOLETE ]; then echo "$sid: skipped (obsolete: $(head -1 $d/OBSOLETE))"; continue; fi
  res=$(SKIPTESTS=1 tools/try_seed.sh $prop $d 2>&1 | grep "^RESULT" | tail -1)
  echo "$sid: $res"
  case "$res" in *CAUGHT*) ;; *) rc=1;; esac
done
exit $rc
