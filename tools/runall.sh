#!/bin/bash
# Runs every registered quick (or thorough) check and prints one summary line each.
cd "$(dirname "$0")/.." || exit 2
tier=${1:-quick}; shift
props=${@:-$(python3 -c "import json;print(' '.join(c['property_id'] for c in json.load(open('MANIFEST.json'))['checks']))")}
rc=0
for p in $props; do
  out=$(./check $p --tier $tier ${NOEV:+--no-evidence} 2>&1); code=$?
  echo "$out" | grep -E "^\[$p\] |^VIOLATION|^KNOWN-FINDING|^HARNESS" | head -6
  [ $code -ne 0 ] && { echo "  -> exit $code"; rc=1; }
done
exit $rc
