#!/bin/bash
# tools/try_seed.sh <PROP> <dir with patch.diff and demo.py> [extra props...]
# Confirms a seeded change in a scratch worktree of /repo (outside /repo and /verif) and runs our checks against it.
#  1. patch applies to /repo HEAD   2. repository test-suite still passes (300 passed, only test_clstype fails)
#  3. demo fails with the patch and passes without it   4. ./check <PROP> (quick) reports a VIOLATION
prop=$1; dir=$(realpath "$2"); shift 2; extra="$@"
cd "$(dirname "$0")/.." || exit 2
SCR=$(mktemp -d /tmp/scr.XXXXXX)
git -C /repo worktree add -q --detach "$SCR" ${BASE:-HEAD} || exit 2
cleanup(){ git -C /repo worktree remove --force "$SCR" 2>/dev/null; rm -rf "$SCR"; }
trap cleanup EXIT
if ! git -C "$SCR" apply "$dir/patch.diff"; then echo "RESULT $prop patch-does-not-apply"; exit 3; fi
export PYTHONDONTWRITEBYTECODE=1
if [ -z "$SKIPTESTS" ]; then
  t=$(cd "$SCR" && PYTHONPATH="$SCR/src" /venv/bin/python -m pytest -q -p no:cacheprovider --timeout=900 2>&1 | tail -1)
  echo "tests-with-patch: $t"
  case "$t" in *"1 failed, 300 passed"*) ;; *) echo "RESULT $prop tests-do-not-pass"; exit 4;; esac
fi
(cd "$SCR" && PYTHONPATH="$SCR/src" timeout 600 /venv/bin/python -W ignore "$dir/demo.py" >/dev/null 2>&1); d1=$?
# (no git stash here: the stash is shared by all worktrees of a repository)
git -C "$SCR" apply -R "$dir/patch.diff"
(cd "$SCR" && PYTHONPATH="$SCR/src" timeout 600 /venv/bin/python -W ignore "$dir/demo.py" >/dev/null 2>&1); d0=$?
git -C "$SCR" apply "$dir/patch.diff"
echo "demo: with-patch exit=$d1, without exit=$d0"
if [ $d1 -eq 0 ] || [ $d0 -ne 0 ]; then echo "RESULT $prop demo-not-discriminating"; exit 5; fi
caught=""
for p in $prop $extra; do
  out=$(NURBS_SRC="$SCR/src" ./check $p --tier ${TIER:-quick} --no-evidence 2>&1); code=$?
  echo "$out" | grep -E "^VIOLATION|^  detail|^HARNESS|^\[$p\] " | cut -c1-300 | head -8
  [ $code -eq 1 ] && caught="$caught $p"
  [ $code -eq 2 ] && echo "  (harness error on $p)"
done
if echo " $caught " | grep -q " $prop "; then echo "RESULT $prop CAUGHT by:$caught"; exit 0; fi
echo "RESULT $prop MISSED (caught by:${caught:- none})"; exit 1
