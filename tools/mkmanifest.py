#!/usr/bin/env python3
"""Regenerates MANIFEST.json from the table below (keeps it valid at all times)."""
import json
import os

ROOT = os.path.dirname(os.path.dirname(os.path.abspath(__file__)))

# id -> (technique, level text, level note, design ref)
CHECKS = {
    "C01": ("Hypothesis property test vs. exact Cox-de Boor reference evaluator",
            "Generated curves (all multiplicity patterns, degree 0..5, rational/polynomial, Fraction/float) evaluated at every knot, both ends, interior and outside points and compared with an independent exact reference; exact equality per case in the Fraction profile, 1e-9 in the float profile.",
            "Trusted: nurbsverif/oracle.py (textbook recursion, exact rationals). Bounded sizes: degree <= 5, <= 5 distinct interior knots.", "DESIGN.md 4/C01"),
    "C02": ("Hypothesis property test vs. reference basis table + sign/support/partition invariants",
            "For generated knot vectors every sub-degree table f[:, j] is compared with the exact Cox-de Boor reference at all knots/ends/interior points; index forms (negative, slices, f[i], f(u)) must select rows of that table; independent invariants (non-negative, support, sum to one).",
            "Trusted: oracle.basis_all. Degree <= 5, <= 4 distinct interior knots.", "DESIGN.md 4/C02"),
    "C03": ("model-based operation histories (generated as data) + constructor input search vs. list model",
            "Generated histories of every public KnotVector operation with valid and invalid arguments are run against a list model; after every step a well-formedness predicate and all queries are checked against the element list; rejected requests must leave the object unchanged; constructor facet enumerates small-alphabet lists.",
            "Trusted: the list model in props/c03.py. Histories <= 50 steps, degree <= 3 initially. TypeError accepted for non-numeric arguments (the suite documents it).", "DESIGN.md 4/C03"),
    "C04": ("Hypothesis property test; exact same-function decision + unique-result oracle",
            "knot_insert on generated curves/multisets: resulting knot vector = multiset union, same function decided exactly per case by sampling deg+1 (2deg+1 rational) points per span in exact arithmetic, control points equal the unique representation computed by the reference; invalid requests must raise ValueError and leave the curve unchanged.",
            "Trusted: oracle.same_function / represent. Degree <= 4, <= 4 interior knots.", "DESIGN.md 4/C04"),
    "C05": ("Hypothesis property test; exact removability (in_space) + exact L2 deviation",
            "knot_remove on reference-refined and generic curves: must succeed exactly when removable; otherwise either ValueError+unchanged or deviation within the stated bound (exact integral); tolerance=None keeps values at remaining knots.",
            "Trusted: oracle.represent/in_space/integral. Degree <= 4.", "DESIGN.md 4/C05"),
    "C06": ("Hypothesis property test; knot model + exact same-function decision",
            "degree_increase / degree setter on generated curves: multiplicities +t, same function (exact); degree_decrease restores elevated curves exactly, refuses non-representable ones leaving them unchanged, tolerance=None keeps knot values and is the constrained best approximation (exactly for Fractions, to 1e-7 for float data).",
            "Trusted: oracle. Degree <= 3 before elevation, t <= 2 (3 thorough).", "DESIGN.md 4/C06"),
    "C07": ("Hypothesis property test; exact restriction/junction oracle",
            "split pieces compared exactly with the original on each sub-interval (knots, clamping, function); joins of split pieces and of independently generated adjacent pairs compared exactly with both operands; junction multiplicity must be minimal.",
            "Trusted: oracle. Degree <= 4.", "DESIGN.md 4/C07"),
    "C08": ("Hypothesis metamorphic test: pointwise identity decided exactly",
            "All curve/curve and curve/scalar operators on generated same-interval pairs (different degrees, shared knots with different multiplicities, rational/polynomial): result compared pointwise with op(A(u),B(u)) at enough exact sample points per span to decide the identity; operands unchanged.",
            "Trusted: oracle.ceval. Degrees <= 3, <= 3 interior knots each.", "DESIGN.md 4/C08"),
    "C09": ("Hypothesis property test vs. exact derivative of span polynomials",
            "Derivate(C) compared with the exact derivative of each span polynomial (quotient rule for rational) at interior points of every span; interval preserved; operand unchanged.",
            "Trusted: oracle.local_poly. Tolerance 1e-9 relative (library computes difference coefficients in float64).", "DESIGN.md 4/C09"),
    "C10": ("Hypothesis call histories in forked pristine processes + exact moment conditions + closed-form integrals",
            "Quadrature rule histories (family, kind, n) executed in fresh processes: moment exactness after each call, equality with the single-call answer; Integrate.scalar/function/lenght vs. exact closed forms on non-uniform knot vectors.",
            "Trusted: exact Fraction moments; float families to 1e-10 for bounded n.", "DESIGN.md 4/C10"),
    "C11": ("Hypothesis property test; exact L2 orthogonality and error functional",
            "fit_curve on generated (source, target) pairs: residual orthogonal to every target basis function (exact integrals), reproduction when in space, error = c * int r^2, interpolation constraints.",
            "Trusted: oracle.integral_product, nullspace. Polynomial curves only.", "DESIGN.md 4/C11"),
    "C12": ("Hypothesis property test; exact normal equations with reference collocation matrix",
            "fit_points / fit_function: B^T(BQ-Z)=0 exactly with the reference collocation matrix; interpolation when square; reproduction of in-space data; too few points rejected.",
            "Trusted: oracle.basis_row, rank. Admissible node sets constructed by Schoenberg-Whitney and verified by exact rank.", "DESIGN.md 4/C12"),
    "C13": ("Hypothesis differential test: == vs. exact same-function decision",
            "A == B for reference-refined / perturbed / rational variants in both operand orders; expected answer decided exactly by the reference; != negation; non-curves False; operands unchanged.",
            "Trusted: oracle.refine_state/same_function. Ambiguous band [1e-10,1e-8] skipped and counted.", "DESIGN.md 4/C13"),
    "C14": ("Hypothesis refinement histories (as data) vs. exact minimal form",
            "Minimal curves refined by random insert/elevate sequences, then clean calls in any order: function preserved exactly (within what the tolerance allows for nearly removable / kinked curves), idempotent, clean() returns exactly the minimal knot vector and control points computed by the reference; rational curves: nothing removable in homogeneous coordinates is left.",
            "Trusted: oracle.minimal_form. Exact minimal form for polynomial curves; rational curves in homogeneous coordinates.", "DESIGN.md 4/C14"),
    "C15": ("model-based operation histories over three curves (two sharing a KnotVector) with structural invariant + snapshots",
            "Histories of every public Curve mutator/non-mutator with valid and invalid arguments: structural invariant after every step, untouched operands, atomic failures, independence of copies and of curves built from one KnotVector object, including a curve that has no control points yet.",
            "Trusted: snapshots by value. Does not assert which requests must raise.", "DESIGN.md 4/C15"),
    "C16": ("Hypothesis differential test across number representations + type walk",
            "Same structural case as Fraction / float / np.float64 / minimal point type through the listed operations: exact profile must stay rational and equal the reference; float profiles agree to 1e-9.",
            "Trusted: oracle. Well-conditioned inputs only for float agreement.", "DESIGN.md 4/C16"),
    "C17": ("Hypothesis property test vs. multiplicity model + representability cross-check",
            "U|V and U&V on generated same-interval pairs compared with the per-knot model; commutative, idempotent, operands unchanged, different intervals rejected; random splines over U and V are representable on U|V and U|V is coarsest.",
            "Trusted: oracle.union_model + represent.", "DESIGN.md 4/C17"),
    "C18": ("exhaustive sweep over (p, n, cls) + Hypothesis for weights/affine maps/invariance",
            "Generators compared with closed forms for every (degree, npts, class) in range (exhaustive), limits exactly (0,1); shift/scale/normalize and the operator spellings (* / + - and in-place forms, int / Fraction / float operands) keep structure and map knots affinely; basis functions invariant under reparametrisation, also when an evaluated object's knot vector is mapped in place or re-assigned.",
            "Trusted: closed forms. p <= 6, n <= p+60 (quick) / p+400 (thorough).", "DESIGN.md 4/C18"),
    "C19": ("Hypothesis property test vs. exact point-segment distances; iteration bound for termination",
            "Polylines: returned parameters sorted, inside, equidistant, at the exact minimum distance; general curves: structural claims, stationarity, on-curve points; termination bounded by evaluation count.",
            "Trusted: exact rational geometry. Global minimality asserted for polylines only.", "DESIGN.md 4/C19"),
    "C20": ("Hypothesis property test vs. exact segment-intersection classification",
            "Segment/polyline pairs classified exactly (crossing / disjoint): returned pairs must equal the exact crossing set, () when disjoint; soundness of every returned pair for all curve classes.",
            "Trusted: exact rational geometry. Completeness asserted for transversal crossings of polylines only.", "DESIGN.md 4/C20"),
}

NOT_APPLICABLE = {
}

ALL = [f"C{i:02d}" for i in range(1, 21)]


def main():
    checks = []
    built = [pid for pid in ALL
             if os.path.exists(os.path.join(ROOT, "nurbsverif", "props", pid.lower() + ".py"))]
    for pid in ALL:
        if pid not in built:
            continue
        tech, text, note, ref = CHECKS[pid]
        checks.append({
            "property_id": pid,
            "quick_cmd": f"./check {pid} --tier quick",
            "thorough_cmd": f"./check {pid} --tier thorough",
            "evidence_file": f"evidence/{pid}.json",
            "replay_cmd_template": f"./check {pid} --replay {{path}}",
            "engine": "nurbsverif (Hypothesis 6.168)",
            "level_claimed": {"category": "exploration", "text": text, "design_ref": ref},
            "level_note": note,
            "technique": tech,
        })
    na = [{"property_id": pid,
           "reason": NOT_APPLICABLE.get(pid, "check not built yet in this revision (planned, see DESIGN.md section 4)")}
          for pid in ALL if pid not in built]
    manifest = {
        "version": 1,
        "setup_cmd": "./setup.sh",
        "hooks": {
            "guard": "NURBS_VERIF",
            "enable": "no source hooks are needed: every observation point is public API; "
                      "checks import /repo/src directly (NURBS_SRC overrides the path for the mutation self-test)",
            "baseline_off_cmd": "cd /repo && /venv/bin/python -m pytest -ra -q -p no:cacheprovider --timeout=900 --continue-on-collection-errors",
            "source_commits": [],
            "add_only": True,
        },
        "engines": [{
            "name": "nurbsverif", "path": "nurbsverif/",
            "serves_properties": [c["property_id"] for c in checks],
            "kind_free_text": "Hypothesis-driven property checks with independent exact-rational oracles; "
                              "sharded over 16 processes; collect->classify->shrink; JSON replays",
        }],
        "checks": checks,
        "not_applicable": na,
        "notes": "See DESIGN.md. known_findings.json lists open findings and fixed defects; "
                 "seeded/ holds independently written property-breaking patches used to test sensitivity.",
    }
    with open(os.path.join(ROOT, "MANIFEST.json"), "w") as fh:
        json.dump(manifest, fh, indent=1)
        fh.write("\n")


if __name__ == "__main__":
    main()
