#!/usr/bin/env python3
"""Regenerates MANIFEST.json from the table below (keeps it valid at all times)."""
import json
import os

ROOT = os.path.dirname(os.path.dirname(os.path.abspath(__file__)))

# id -> (technique, level text, level note, design ref)
CHECKS = {
    "C01": ("Hypothesis property test vs. exact Cox-de Boor reference evaluator",
            "Generated curves (all multiplicity patterns, degree 0..5, rational/polynomial, "
            "Fraction/float) evaluated at every knot, both ends, interior and outside points and "
            "compared with an independent exact reference; exact equality per case in the Fraction "
            "profile, 1e-9 in the float profile.",
            "Trusted: nurbsverif/oracle.py (textbook recursion, exact rationals). Bounded sizes: "
            "degree <= 5, <= 5 distinct interior knots.", "DESIGN.md 4/C01"),
}

NOT_APPLICABLE = {
}

ALL = [f"C{i:02d}" for i in range(1, 21)]


def main():
    checks = []
    for pid in ALL:
        if pid not in CHECKS:
            continue
        tech, text, note, ref = CHECKS[pid]
        checks.append({
            "property_id": pid,
            "quick_cmd": f"./check {pid} --tier quick",
            "thorough_cmd": f"./check {pid} --tier thorough",
            "evidence_file": f"evidence/{pid}.json",
            "replay_cmd_template": f"./check {pid} --replay {{path}}",
            "engine": "nurbsverif (Hypothesis 6.168)",
            "level_claimed": {"category": "exploration", "text": text, "design_ref": ref},
            "level_note": note,
            "technique": tech,
        })
    na = [{"property_id": pid,
           "reason": NOT_APPLICABLE.get(pid, "check not built yet in this revision (planned, see DESIGN.md section 4)")}
          for pid in ALL if pid not in CHECKS]
    manifest = {
        "version": 1,
        "setup_cmd": "./setup.sh",
        "hooks": {
            "guard": "NURBS_VERIF",
            "enable": "no source hooks are needed: every observation point is public API; "
                      "checks import /repo/src directly (NURBS_SRC overrides the path for the mutation self-test)",
            "baseline_off_cmd": "cd /repo && /venv/bin/python -m pytest -ra -q -p no:cacheprovider --timeout=900 --continue-on-collection-errors",
            "source_commits": [],
            "add_only": True,
        },
        "engines": [{
            "name": "nurbsverif", "path": "nurbsverif/",
            "serves_properties": [c["property_id"] for c in checks],
            "kind_free_text": "Hypothesis-driven property checks with independent exact-rational oracles; "
                              "sharded over 16 processes; collect->classify->shrink; JSON replays",
        }],
        "checks": checks,
        "not_applicable": na,
        "notes": "See DESIGN.md. known_findings.json lists open findings and fixed defects; "
                 "seeded/ holds independently written property-breaking patches used to test sensitivity.",
    }
    with open(os.path.join(ROOT, "MANIFEST.json"), "w") as fh:
        json.dump(manifest, fh, indent=1)
        fh.write("\n")


if __name__ == "__main__":
    main()
