#!/bin/bash
# tools/keep_seed.sh <PROP> <srcdir> <seed-id>   : full confirmation, then store under seeded/<seed-id>/
prop=$1; src=$2; sid=$3
cd "$(dirname "$0")/.." || exit 2
log=$(mktemp)
tools/try_seed.sh $prop $src > $log 2>&1; rc=$?
res=$(grep "^RESULT" $log | tail -1)
echo "$sid: $res"
if [ $rc -eq 0 ] || [ $rc -eq 1 ]; then
  mkdir -p seeded/$sid
  cp $src/patch.diff seeded/$sid/patch.diff
  cp $src/demo.py seeded/$sid/demo.py
  [ -f $src/notes.md ] && cp $src/notes.md seeded/$sid/notes.md
  python3 - "$prop" "$sid" "$log" "$rc" <<'P'
import json, sys, re, subprocess
prop, sid, log, rc = sys.argv[1:5]
text = open(log).read()
notes = ""
try: notes = open(f"seeded/{sid}/notes.md").read()
except Exception: pass
files = re.findall(r"^\+\+\+ b/(\S+)", open(f"seeded/{sid}/patch.diff").read(), re.M)
caught = re.search(r"RESULT \S+ (CAUGHT by:(.*)|MISSED.*)", text)
details = [l.strip()[:300] for l in text.splitlines() if l.strip().startswith("detail:")][:4]
meta = {
  "id": sid, "breaks_property": prop, "author": "independent sub-agent given only the property text and a scratch worktree",
  "files_changed": files,
  "needs_to_manifest": "see notes.md (trigger section)",
  "confirmed": {
     "how": "tools/try_seed.sh: fresh scratch worktree of /repo HEAD under /tmp (removed afterwards); patch applied with git apply",
     "repo_head": subprocess.run(["git","-C","/repo","log","--format=%h","-1"],capture_output=True,text=True).stdout.strip(),
     "tests_with_patch": (re.search(r"tests-with-patch: (.*)", text) or [None, "?"])[1],
     "demo": (re.search(r"demo: (.*)", text) or [None, "?"])[1],
  },
  "our_check": {"command": f"NURBS_SRC=<scratch>/src ./check {prop} --tier quick --no-evidence",
                "result": caught.group(0) if caught else "?", "violation_details": details},
}
json.dump(meta, open(f"seeded/{sid}/meta.json","w"), indent=1)
P
fi
rm -f $log
