#!/bin/bash
# Offline setup: make sure hypothesis is importable by /venv/bin/python (it is pre-installed
# in /venv; otherwise install it from the offline wheelhouse into /verif/.deps).
cd "$(dirname "$0")" || exit 1
PY=/venv/bin/python
DEPS="$PWD/.deps"
mkdir -p evidence replays/new
if ! PYTHONPATH="$DEPS" $PY -c "import hypothesis, numpy" >/dev/null 2>&1; then
  mkdir -p "$DEPS"
  $PY -m pip install -q --no-index --find-links /opt/veriftools/wheels --target "$DEPS" hypothesis || exit 1
fi
PYTHONPATH="$PWD:$DEPS" $PY -B -W ignore -c "import nurbsverif.lib" || exit 1
echo "setup ok"
