"""Hypothesis strategies.  Constructive: every emitted knot vector is valid by
construction; every case is plain data (Fractions, ints, lists, dicts)."""
from fractions import Fraction as F

from hypothesis import strategies as st

INTERVAL_STARTS = [F(0), F(0), F(-1), F(-3, 2), F(1, 3), F(2), F(-5)]
INTERVAL_LENGTHS = [F(1), F(1), F(1, 2), F(2), F(3), F(7, 3)]
GRIDS = [2, 3, 4, 5, 6, 7, 8, 10, 12, 12, 12, 16, 24, 30, 37, 60]


@st.composite
def intervals(draw, zero_inside=None):
    """(a, b).  zero_inside=True forces a < 0 < b with 0 on the 1/12 grid."""
    if zero_inside is None:
        zero_inside = draw(st.integers(0, 5)) == 0
    if zero_inside:
        a = draw(st.sampled_from([F(-1), F(-1, 2), F(-2), F(-1, 3), F(-3)]))
        ratio = draw(st.sampled_from([F(1), F(2), F(1, 2), F(3), F(1, 3)]))
        return a, -a * ratio
    a = draw(st.sampled_from(INTERVAL_STARTS))
    ln = draw(st.sampled_from(INTERVAL_LENGTHS))
    return a, a + ln


@st.composite
def interior_positions(draw, a, b, kmax, grid=None):
    """Sorted distinct interior knot positions (possibly none)."""
    if grid is None:
        grid = draw(st.sampled_from(GRIDS))
    k = draw(st.integers(0, min(kmax, grid - 1)))
    if k == 0:
        return []
    js = draw(st.lists(st.integers(1, grid - 1), min_size=k, max_size=k, unique=True))
    pos = sorted(a + (b - a) * F(j, grid) for j in js)
    if a < 0 < b and draw(st.integers(0, 2)) == 0 and 0 not in pos:
        pos[draw(st.integers(0, len(pos) - 1))] = F(0)
        pos = sorted(set(pos))
    return pos


@st.composite
def knotvectors(draw, pmin=0, pmax=4, kmax=4, interval=None, grid=None,
                max_mult_bias=True, degree=None):
    """Returns (U, p): a valid clamped knot vector as list of Fractions."""
    p = degree if degree is not None else draw(st.integers(pmin, pmax))
    a, b = interval if interval is not None else draw(intervals())
    pos = draw(interior_positions(a, b, kmax, grid))
    U = [a] * (p + 1)
    for z in pos:
        if max_mult_bias and draw(st.integers(0, 3)) == 0:
            m = draw(st.sampled_from([p + 1, max(p, 1)]))
        else:
            m = draw(st.integers(1, p + 1))
        U += [z] * m
    U += [b] * (p + 1)
    return U, p


def small_fracs(lo=-10, hi=10, dens=(1, 1, 2, 3, 4, 5, 7)):
    return st.builds(lambda n, d: F(n, d), st.integers(lo * 2, hi * 2), st.sampled_from(dens))


@st.composite
def ctrlpoints(draw, n, dim=None, values=None):
    """dim=0 -> scalars; dim>=1 -> vectors.  List of Fractions / lists."""
    if dim is None:
        dim = draw(st.sampled_from([0, 0, 1, 2, 2, 3]))
    custom = values is not None  # a caller's value set (e.g. positive values only) is kept: no extrapolation
    values = values or small_fracs()
    if dim == 0:
        pts = draw(st.lists(values, min_size=n, max_size=n))
    else:
        pts = draw(st.lists(st.lists(values, min_size=dim, max_size=dim), min_size=n, max_size=n))
    # structural corners of the control polygon (one case in five): repeated neighbours, closed polygon,
    # collinear / arithmetic progression, all points equal
    pattern = draw(st.sampled_from(["generic"] * 8 + ["repeat", "closed", "collinear", "equal"]))
    if pattern == "repeat" and n >= 2:
        i = draw(st.integers(1, n - 1))
        pts[i] = pts[i - 1]
    elif pattern == "closed" and n >= 3:
        pts[-1] = pts[0]
    elif pattern == "collinear" and n >= 3 and not custom:
        if dim == 0:
            pts = [pts[0] + (pts[1] - pts[0]) * i for i in range(n)]
        else:
            pts = [[a + (b - a) * i for a, b in zip(pts[0], pts[1])] for i in range(n)]
    elif pattern == "equal":
        pts = [pts[0]] * n if dim == 0 else [list(pts[0]) for _ in range(n)]
    return pts


@st.composite
def point_dim(draw, sizes, base=(2, 3)):
    """Dimension of vector control points.  Mostly 2 or 3; one time in three a dimension that coincides with one of
    the array sizes in play (number of control points of an operand or of the result): code that tells axes apart
    by their length is then ambiguous."""
    cand = sorted({int(x) for x in sizes if 1 <= int(x) <= 6})
    if cand and draw(st.integers(0, 2)) == 0:
        return draw(st.sampled_from(cand))
    return draw(st.sampled_from(list(base)))


def pos_weights(n):
    w = st.builds(lambda a, d: F(a, d), st.integers(1, 9), st.sampled_from([1, 1, 2, 3, 5]))
    generic = st.lists(w, min_size=n, max_size=n)
    # one case in six: all weights equal to one constant (the curve is then a polynomial curve in disguise)
    constant = w.map(lambda x: [x] * n)
    return st.one_of(generic, generic, generic, generic, generic, constant)


@st.composite
def curves(draw, pmin=0, pmax=4, kmax=4, rational=None, dim=None, nums=("frac",),
           interval=None, grid=None, degree=None, values=None, regimes=None, negweights=True, wfactor=None, far=True):
    """A curve case dict {'U','p','P','w','num'}."""
    if regimes is None:
        regimes = "std" if interval is None and values is None else False  # callers that fix interval / values keep them
    if wfactor is None:
        wfactor = regimes is not False
    U, p = draw(knotvectors(pmin, pmax, kmax, interval, grid, degree=degree))
    n = len(U) - p - 1
    P = draw(ctrlpoints(n, dim, values))
    if rational is None:
        rational = draw(st.booleans())
    w = draw(pos_weights(n)) if rational else None
    if w is not None and negweights and draw(st.integers(0, 7)) == 0:
        # the same rational curve written with all weights negative (the weight function still has no zero)
        w = [-x for x in w]
    elif w is not None and negweights and n >= 3 and draw(st.integers(0, 7)) == 0:
        # one interior weight slightly negative while the weight *function* stays positive (decided exactly)
        i = draw(st.integers(1, n - 2))
        trial = list(w)
        trial[i] = -min(w[i - 1], w[i + 1]) / draw(st.sampled_from([10, 5, 20]))
        if weight_function_positive(U, p, trial):
            w = trial
    num = draw(st.sampled_from(list(nums)))
    if regimes and num in ("frac", "fracint") and draw(st.integers(0, 7)) == 0:
        # numeric regimes, exact profile only: knots around +-1e6, very short / very long parameter intervals,
        # control points around 1e8 or 1e-8 (float profiles stay well conditioned on purpose)
        # (the last two - time stamps - only where every step is exact: a float rule maps its nodes with float
        # arithmetic, which at 1e12 moves them by 1e-4)
        a0, sc = draw(st.sampled_from([(F(10 ** 6), F(1)), (F(-10 ** 6), F(1000)), (F(0), F(1, 1000)), (F(0), F(10 ** 5))] +
                                       ([(F(17 * 10 ** 8), F(1)), (F(-10 ** 12), F(1))] if far else [])))
        U = [a0 + sc * u for u in U]
        # tiny control points only on request ("all"): operations that accept a removal within the library's
        # absolute 1e-9 tolerance (clean, knot_remove, degree_decrease, join, derivative) legitimately smooth them
        ps = draw(st.sampled_from([F(1), F(1), F(10 ** 8)] + ([F(1, 10 ** 8), F(1, 10 ** 11), F(1, 10 ** 20), "axis"]
                                                              if regimes == "all" else [])))
        if ps == "axis":
            # one coordinate axis many orders of magnitude below the others
            tiny = F(1, 10 ** 18)
            P = [x * tiny for x in P] if not isinstance(P[0], list) else [[c * tiny] + list(x[1:]) for x in P for c in [x[0]]]
        elif ps != 1:
            P = [x * ps for x in P] if not isinstance(P[0], list) else [[c * ps for c in x] for x in P]
        if w is not None:
            # weights are homogeneous: the same curve with all weights tiny, huge, or nearly equal to each other
            wk = draw(st.sampled_from(["same", "same", "tiny", "huge", "nearly-equal"]))
            if wk == "tiny":
                w = [x / 10 ** 10 for x in w]
            elif wk == "huge":
                w = [x * 10 ** 10 for x in w]
            elif wk == "nearly-equal":
                w = [1 + x / 10 ** 11 for x in w]
    if w is not None and wfactor and draw(st.integers(0, 5)) == 0:
        # weights are homogeneous, in every number profile: the same curve with a common factor on all weights
        f = draw(st.sampled_from([F(1, 10 ** 6), F(1, 10 ** 4), F(1, 1000), F(1000), F(10 ** 4), F(10 ** 6)]))
        w = [x * f for x in w]
    out = {"U": U, "p": p, "P": P, "w": w, "num": num}
    if isinstance(P[0], list) and draw(st.integers(0, 3)) == 0:
        # the control points handed over as a list of separate arrays; equal points are the same object
        out["ptform"] = "arrays"
    elif isinstance(P[0], list) and num == "float" and regimes is not False and draw(st.integers(0, 3)) == 0:
        # integer data: an int64 array of control points (and integral weights as Python ints)
        out["P"] = [[F(int(c)) for c in pt] for pt in P]
        if w is not None:
            out["w"] = [F(int(x)) if abs(x) >= 1 else x for x in w]
        out["ptform"] = "int64"
    return out


def weight_function_positive(U, p, w, depth=5):
    """Exact sufficient test: every Bezier piece of sum_i w_i N_i has positive Bernstein coefficients after at most
    ``depth`` de Casteljau halvings.  False also means 'undecided'."""
    from . import oracle
    from .oracle import State
    if p == 0:
        return all(x > 0 for x in w)
    bk = breaks_of(U)
    Ub = [bk[0]] * (p + 1)
    for z in bk[1:-1]:
        Ub += [z] * max(p, sum(1 for u in U if u == z))
    Ub += [bk[-1]] * (p + 1)
    coef = [c[0] for c in oracle.refine_state(State(list(U), p, [(x,) for x in w], None, True), Ub, p).P]
    # pieces: consecutive groups; with interior multiplicity p pieces share their end coefficient, with p+1 they do not
    pieces, k = [], 0
    for idx, z in enumerate(bk[:-1]):
        pieces.append(coef[k:k + p + 1])
        nxt = bk[idx + 1]
        m = sum(1 for u in Ub if u == nxt)
        k += p if (m == p and idx + 1 < len(bk) - 1) else p + 1
    def positive(b, d):
        if all(x > 0 for x in b):
            return True
        if b[0] <= 0 or b[-1] <= 0 or d == 0:
            return False
        left, right, cur = [b[0]], [b[-1]], list(b)
        while len(cur) > 1:
            cur = [(x + y) / 2 for x, y in zip(cur[:-1], cur[1:])]
            left.append(cur[0])
            right.append(cur[-1])
        return positive(left, d - 1) and positive(right[::-1], d - 1)
    return all(len(b) == p + 1 and positive(b, depth) for b in pieces)


@st.composite
def flat_coordinate(draw, c):
    """Vector-valued control points, one case in three: one coordinate is the same constant in every control point,
    so that this coordinate alone is exactly representable with fewer knots / a lower degree while the others are
    not - a removal or reduction is decided by the worst coordinate, never by the best one."""
    P = c["P"]
    if not P or not isinstance(P[0], list) or len(P[0]) < 2 or draw(st.integers(0, 2)) != 0:
        return c
    j = draw(st.integers(0, len(P[0]) - 1))
    v = draw(st.sampled_from([F(0), F(1), P[0][j]]))
    return dict(c, P=[[v if k == j else x for k, x in enumerate(pt)] for pt in P])


@st.composite
def unit_weight_function(draw, U, w, extra):
    """Weights are homogeneous: the same rational object with its weights divided by the value W(u*) of the weight
    function at one parameter u* that the caller evaluates (``params_of(U, extra)``), so that W(u*) is exactly 1
    there although the weights are not all 1 (one rational case in four).  "Already normalised" is then true at one
    evaluated parameter only."""
    if w is None or draw(st.integers(0, 3)) != 0:
        return w
    from . import oracle
    p = 0
    while U[p + 1] == U[0]:
        p += 1
    u = draw(st.sampled_from(params_of(U, extra)))
    row = oracle.basis_all(U, p, u)
    W = sum(F(x) * F(b) for x, b in zip(w, row))
    return [F(x) / W for x in w] if W > 0 else w


@st.composite
def weight_magnitude(draw, c, wide=False):
    """The same rational curve with all its weights multiplied by a common factor (weights are homogeneous):
    one case in three (one in two over a wider range with ``wide``).  Nothing may depend on that factor."""
    if c.get("w") is not None and draw(st.integers(0, 1 if wide else 2)) == 0:
        f = draw(st.sampled_from([F(1, 10 ** 4), F(10 ** 4), F(1, 1000), F(10 ** 6), F(1, 10 ** 6)] +
                                 ([F(1, 10 ** 6), F(1, 10 ** 9), F(1, 10 ** 12), F(10 ** 9)] if wide else [])))
        c = dict(c, w=[x * f for x in c["w"]])
    return c


def breaks_of(U):
    out = []
    for u in U:
        if not out or u != out[-1]:
            out.append(u)
    return out


NEAR = (F(1, 10 ** 7), F(1, 10 ** 12), F(1, 10 ** 20))


def params_of(U, extra=2, near=()):
    """Every distinct knot plus ``extra`` points strictly inside each span; with ``near`` also the points at those
    distances on either side of every knot (inside the interval and inside the neighbouring span): they are not knots,
    whatever a tolerance or a float image says."""
    bk = breaks_of(U)
    out = list(bk)
    for lo, hi in zip(bk[:-1], bk[1:]):
        for k in range(1, extra + 1):
            out.append(lo + (hi - lo) * F(k * 5 - 2, 5 * extra + 2))
        for d in near:
            if 4 * d < hi - lo:
                out += [lo + d, hi - d]
    return sorted(out)


@st.composite
def outside_params(draw, U):
    a, b = U[0], U[-1]
    # (also a hair outside: a tolerance at the ends would turn "raises ValueError" into a value)
    d = draw(st.sampled_from([F(1, 1000), F(1, 7), F(1), F(10), F(1, 10 ** 12), F(1, 10 ** 10), F(1, 10 ** 30)]))
    return draw(st.sampled_from([a - d, b + d]))


@st.composite
def same_interval_pair(draw, pmax=3, kmax=3, grid=12, alike=False):
    """Two knot vectors on one interval with independent degrees; interior
    knots from one grid so that shared knots with different multiplicities,
    disjoint knots and different degrees all occur."""
    a, b = draw(intervals())
    U, p = draw(knotvectors(1 if alike else 0, pmax, kmax, (a, b), grid))
    samedeg = draw(st.booleans())
    V, q = draw(knotvectors(0, pmax, kmax, (a, b), grid, degree=p if samedeg else None))
    coincidence = draw(st.sampled_from((["free"] * 6 if not alike else []) + ["same-breaks-permuted"] * 2
                                       + ["same-breaks-redrawn", "identical"]))
    bu = breaks_of(U)[1:-1]
    if coincidence != "free" and bu:
        # structural coincidences between the operands: the same distinct knots with the multiplicities
        # distributed differently (same degree, possibly the same number of control points), or identical vectors
        if coincidence == "identical":
            return (U, p), (list(U), p)
        mults = [sum(1 for u in U if u == z) for z in bu]
        if coincidence == "same-breaks-permuted":
            mults = list(draw(st.permutations(mults)))
            q = p
        else:
            q = p if draw(st.booleans()) else q
            mults = [draw(st.integers(1, q + 1)) for _ in bu]
        V = [a] * (q + 1)
        for z, m in zip(bu, mults):
            V += [z] * min(m, q + 1)
        V += [b] * (q + 1)
        return (U, p), (V, q)
    if draw(st.integers(0, 3)) == 0:
        # force a shared interior knot with (possibly) different multiplicity
        bu = breaks_of(U)[1:-1]
        if bu:
            z = draw(st.sampled_from(bu))
            if z not in V:
                m = draw(st.integers(1, q + 1))
                V = sorted(V + [z] * m)
    return (U, p), (V, q)


@st.composite
def special_rational(draw, Ulow, plow, Uhigh, phigh, dim=None, function_kinds=False):
    """A rational curve case on (Uhigh, phigh) - a refinement of (Ulow, plow) - in which only *part* of the
    homogeneous representation lives in the low space: the weight function alone, or the numerator alone, or
    constant weights.  Such curves are (generically) NOT reducible, but a projection that looks at the weights
    only, or at the numerator only, believes they are.  Returns (case, kind)."""
    from . import oracle
    from .oracle import State
    nlow, nhigh = len(Ulow) - plow - 1, len(Uhigh) - phigh - 1
    if dim is None:
        dim = draw(st.sampled_from([0, 0, 2]))
    kind = draw(st.sampled_from(["weights-in-low-space", "numerator-in-low-space", "weights-constant"] +
                                (["function-piecewise-constant"] * 2 if function_kinds else [])))
    if kind == "function-piecewise-constant":
        # The *function* is reducible although neither numerator nor weight function is: pieces separated by knots of
        # full multiplicity, all control points of a piece equal (the weights then cancel on that piece), any weights.
        # Neighbouring pieces with the same value make the knot between them removable for the curve only.
        bk = breaks_of(Ulow)
        a, b = bk[0], bk[-1]
        phigh = draw(st.sampled_from([0, 0, phigh]))  # written at degree 0 (weights are then plain labels) or higher
        npieces = draw(st.integers(1, 3))
        cuts = [a + (b - a) * t for t in sorted(draw(st.lists(st.sampled_from([F(1, 4), F(1, 3), F(1, 2), F(3, 5), F(4, 5)]),
                                                            min_size=npieces - 1, max_size=npieces - 1, unique=True)))]
        U = [a] * (phigh + 1)
        for z in cuts:
            U += [z] * (phigh + 1)
        U += [b] * (phigh + 1)
        alphabet = st.sampled_from([F(5), F(5), F(-2), F(1, 2)])
        vals = [draw(alphabet) if dim == 0 else [draw(alphabet) for _ in range(dim)] for _ in range(npieces)]
        P = [vals[j] if dim == 0 else list(vals[j]) for j in range(npieces) for _ in range(phigh + 1)]
        W = draw(pos_weights(len(P)))
        return {"U": U, "p": phigh, "P": P, "w": W, "num": "frac"}, kind
    if kind == "weights-in-low-space":
        wl = draw(pos_weights(nlow))
        W = [x[0] for x in oracle.refine_state(State(Ulow, plow, [(w,) for w in wl], None, True), Uhigh, phigh).P]
        P = draw(ctrlpoints(nhigh, dim))
    elif kind == "numerator-in-low-space":
        Nl = draw(ctrlpoints(nlow, dim))
        pts = [(x,) for x in Nl] if dim == 0 else [tuple(x) for x in Nl]
        N = oracle.refine_state(State(Ulow, plow, pts, None, dim == 0), Uhigh, phigh).P
        W = draw(pos_weights(nhigh))
        P = [n_[0] / w for n_, w in zip(N, W)] if dim == 0 else [[c / w for c in n_] for n_, w in zip(N, W)]
    else:
        c = draw(st.sampled_from([F(1), F(2), F(1, 3)]))
        W = [c] * nhigh
        P = draw(ctrlpoints(nhigh, dim))
    return {"U": list(Uhigh), "p": phigh, "P": P, "w": W, "num": "frac"}, kind
