"""JSON <-> case data.  Cases are nested dict/list/tuple structures whose
leaves are int, Fraction, float, str, bool or None.  Fractions and floats are
stored as tagged strings so that they round-trip bit-exactly."""
import hashlib
import json
from fractions import Fraction


def encode(x):
    if x is None or isinstance(x, (bool, str)):
        if isinstance(x, str):
            return "s:" + x
        return x
    if isinstance(x, int):
        return x
    if isinstance(x, Fraction):
        return f"q:{x.numerator}/{x.denominator}"
    if isinstance(x, float):
        return "f:" + x.hex()
    if isinstance(x, (list, tuple)):
        return [encode(v) for v in x]
    if isinstance(x, dict):
        return {str(k): encode(v) for k, v in x.items()}
    if hasattr(x, "item"):
        return encode(x.item())
    raise TypeError(f"cannot encode {type(x)}")


def decode(x):
    if x is None or isinstance(x, (bool, int)):
        return x
    if isinstance(x, str):
        tag, body = x[:2], x[2:]
        if tag == "s:":
            return body
        if tag == "q:":
            n, d = body.split("/")
            return Fraction(int(n), int(d))
        if tag == "f:":
            return float.fromhex(body)
        raise ValueError(f"bad tagged string {x!r}")
    if isinstance(x, list):
        return [decode(v) for v in x]
    if isinstance(x, dict):
        return {k: decode(v) for k, v in x.items()}
    raise TypeError(f"cannot decode {type(x)}")


def dumps(case):
    return json.dumps(encode(case), sort_keys=True, separators=(",", ":"))


def digest(case):
    return hashlib.blake2b(dumps(case).encode(), digest_size=8).hexdigest()


def pretty(x):
    """Human-readable form for evidence samples (Fractions as 'a/b')."""
    if isinstance(x, Fraction):
        return str(x) if x.denominator != 1 else int(x)
    if isinstance(x, float):
        return x
    if isinstance(x, (list, tuple)):
        return [pretty(v) for v in x]
    if isinstance(x, dict):
        return {str(k): pretty(v) for k, v in x.items()}
    if hasattr(x, "item"):
        return pretty(x.item())
    return x
