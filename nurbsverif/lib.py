"""Bridge to the code under test: imports compmec.nurbs from the working tree,
builds library objects from case data, reads states back."""
import os
import sys
import traceback
import warnings
from fractions import Fraction as F

SRC = os.path.realpath(os.environ.get("NURBS_SRC", "/repo/src"))
if SRC not in sys.path:
    sys.path.insert(0, SRC)
warnings.filterwarnings("ignore")

import numpy as np  # noqa: E402

import compmec.nurbs as nurbs  # noqa: E402
from compmec.nurbs import heavy  # noqa: E402
from compmec.nurbs.curves import Curve  # noqa: E402
from compmec.nurbs.functions import Function  # noqa: E402
from compmec.nurbs.knotspace import GeneratorKnotVector, KnotVector  # noqa: E402

from . import oracle  # noqa: E402
from .oracle import State, frac  # noqa: E402

if not os.path.realpath(nurbs.__file__).startswith(SRC + os.sep):
    sys.stderr.write(f"HARNESS: compmec.nurbs imported from {nurbs.__file__}, expected {SRC}\n")
    sys.exit(2)


class HarnessError(Exception):
    pass


def from_library(exc):
    """True when the traceback of exc passes through the code under test."""
    tb = exc.__traceback__
    while tb is not None:
        fn = os.path.realpath(tb.tb_frame.f_code.co_filename)
        if fn.startswith(SRC + os.sep):
            return True
        tb = tb.tb_next
    return False


def lib_site(exc):
    """Innermost library frame 'file.py:function' of an exception."""
    site = "?"
    for fr, _ in traceback.walk_tb(exc.__traceback__):
        fn = os.path.realpath(fr.f_code.co_filename)
        if fn.startswith(SRC + os.sep):
            site = f"{os.path.basename(fn)}:{fr.f_code.co_name}"
    return site


# ------------------------------------------------------------ number profiles
# 'frac'    : Fractions everywhere
# 'fracint' : Fraction knots/parameters, int points/weights where integral
# 'float'   : Python floats
# 'npfloat' : numpy float64
EXACT = ("frac", "fracint")


def is_exact(num):
    return num in EXACT


def conv_knot(x, num):
    if num in EXACT:
        return F(x)
    if num == "int":  # integer knots (results are floats: the library divides ints)
        x = F(x)
        if x.denominator != 1:
            raise HarnessError("profile 'int' needs integral knots")
        return int(x)
    if num == "float":
        return float(x)
    if num == "npfloat":
        return np.float64(float(x))
    raise HarnessError(f"unknown number profile {num}")


def conv_param(x, num):
    """A parameter value in the number profile (profile 'int': int when integral, else float)."""
    if num == "int":
        x = F(x)
        return int(x) if x.denominator == 1 else float(x)
    return conv_knot(x, num)


def conv_val(x, num):
    if num == "frac":
        return F(x)
    if num in ("fracint", "int"):
        x = F(x)
        return int(x) if x.denominator == 1 else x
    if num == "float":
        return float(x)
    if num == "npfloat":
        return np.float64(float(x))
    raise HarnessError(f"unknown number profile {num}")


SEQ_FORMS = ("list", "list", "tuple", "gen", "iter", "map", "objarray")


def seq_form(values, form):
    """The same node sequence handed over in another legitimate form.  One-shot iterables (generator, iterator,
    map object) are accepted by every node-taking entry point of the pinned library that this is used for
    (evaluation, knot_insert / knot_remove / knot_clean, split, KnotVector.insert / remove / + / -, basis
    evaluation, fit nodes), so they must keep giving the result the list gives."""
    values = list(values)
    if form == "tuple":
        return tuple(values)
    if form == "gen":
        return (v for v in values)
    if form == "iter":
        return iter(values)
    if form == "map":
        return map(lambda v: v, values)
    if form == "objarray":
        arr = np.empty(len(values), dtype=object)
        for i, v in enumerate(values):
            arr[i] = v
        return arr
    return values


SEQ_ORDERS = ("given", "given", "reversed", "interleaved", "rotated")


def with_repeats(values, mode):
    """The same sequence with some entries occurring more than once (nothing says a node sequence is a set)."""
    values = list(values)
    if not mode or len(values) < 2:
        return values
    if mode == "mirror":
        return values + values[::-1]
    return values[:1] + values + values[len(values) // 2:len(values) // 2 + 1] + values[:1]


def reorder(values, order):
    """A deterministic rearrangement (the statements never ask for sorted nodes)."""
    values = list(values)
    if order == "reversed":
        return values[::-1]
    if order == "interleaved":
        return values[1::2] + values[0::2][::-1]
    if order == "rotated":
        k = len(values) // 2
        return values[k:] + values[:k]
    return values


def conv_points(P, num, form=None):
    """P: list of scalars, or list of lists (vectors).  form="arrays": a list of separate one-dimensional arrays in
    which equal points are one and the same object (a closed polygon written [P0, P1, P2, P0])."""
    if not isinstance(P[0], (list, tuple)):
        return [conv_val(x, num) for x in P]
    if form == "int64" and all(F(c).denominator == 1 for pt in P for c in pt):
        return np.array([[int(c) for c in pt] for pt in P], dtype="int64")
    if form == "arrays":
        seen, out = {}, []
        for pt in P:
            key = tuple(pt)
            if key not in seen:
                if num in EXACT:
                    arr = np.empty(len(pt), dtype=object)
                    for j, c in enumerate(pt):
                        arr[j] = conv_val(c, num)
                else:
                    arr = np.array([float(c) for c in pt], dtype="float64")
                seen[key] = arr
            out.append(seen[key])
        return out
    if num in EXACT:
        arr = np.empty((len(P), len(P[0])), dtype=object)
        for i, pt in enumerate(P):
            for j, c in enumerate(pt):
                arr[i, j] = conv_val(c, num)
        return arr
    return np.array([[float(c) for c in pt] for pt in P], dtype="float64")


def build_curve(case):
    """case: {'U','P','w','num'} -> Curve."""
    num = case.get("num", "frac")
    U = [conv_knot(u, num) for u in case["U"]]
    P = conv_points(case["P"], num, case.get("ptform"))
    w = None if case.get("w") is None else [conv_val(x, num) for x in case["w"]]
    if w is not None and case.get("ptform") == "int64":
        # integer data throughout: integral weights stay Python ints next to the int64 control points
        w = [int(x) if F(x).denominator == 1 else conv_val(x, num) for x in case["w"]]
    return Curve(U, P, w)


HISTORY_MODES = (None, None, None, "points-only", "weights-then-points", "points-then-weights", "knots-in-place")


def default_use(curve):
    """Use an object the way a caller would before changing it (cheap: evaluation only; the checks add the
    operation they are about)."""
    umin, umax = curve.knotvector.limits
    for fn in (lambda: curve(umin), lambda: curve([umin, umax])):
        try:
            fn()
        except Exception as exc:
            if not from_library(exc):
                raise


def build_curve_history(case, mode, use=default_use):
    """The curve of ``case`` reached through the public setters on an object that was constructed with other
    control points (and other weights) and has already been used: whatever an object remembers about its former
    data must not survive the assignment.  Returns None when the mode does not apply."""
    if not mode:
        return build_curve(case)
    num = case.get("num", "frac")
    if mode == "knots-in-place":
        # the same control points on another parametrisation, used, then the live knot vector object mapped in
        # place (scale, then shift) onto the knots of the case: nothing remembered about the old parameter may survive
        if num != "frac":
            return build_curve(case)
        U = [F(u) for u in case["U"]]
        a, s = U[0] + 1, F(2)
        curve = Curve([(u - a) / s for u in U], conv_points(case["P"], num, case.get("ptform")),
                      None if case.get("w") is None else [conv_val(x, num) for x in case["w"]])
        use(curve)
        try:
            curve.knotvector.scale(s).shift(a)
        except Exception as exc:
            if not from_library(exc):
                raise
            return build_curve(case)
        if [frac(u) for u in curve.knotvector] != U:
            return build_curve(case)  # (the property object is not live: nothing to test on this route)
        return curve
    U = [conv_knot(u, num) for u in case["U"]]
    P = conv_points(case["P"], num, case.get("ptform"))
    w = None if case.get("w") is None else [conv_val(x, num) for x in case["w"]]
    one = conv_val(F(1), num)
    if isinstance(case["P"][0], (list, tuple)):
        P0 = conv_points([[c + 1 for c in pt] for pt in case["P"]], num)
    else:
        P0 = conv_points([c + 1 for c in case["P"]], num)
    w0 = w if (w is None or mode == "points-only") else [x * (i + 2) * one for i, x in enumerate(w)]
    curve = Curve(U, P0, w0)
    use(curve)
    if mode == "points-only":
        curve.ctrlpoints = P
    elif mode == "weights-then-points":
        if w is not None:
            curve.weights = w
        curve.ctrlpoints = P
    else:
        curve.ctrlpoints = P
        if w is not None:
            curve.weights = w
    return curve


def refined_weight_vanishes(ref, newU, newp):
    """True when the rational state ``ref`` has, on the refined vector (newU, newp), a control weight exactly 0:
    the curve is then not representable by finite control points (P_i, w_i) there, and the library refuses the
    operation (leaving the curve as it was).  Only reachable with weights of mixed sign."""
    if ref.w is None:
        return False
    den = oracle.refine_state(oracle.denominator_state(ref), newU, newp)
    return any(pt[0] == 0 for pt in den.P)


def case_state(case):
    """Reference state of a curve case *as the library receives it* (floats
    are converted first, then taken exactly)."""
    num = case.get("num", "frac")
    U = [frac(conv_knot(u, num)) for u in case["U"]]
    P = case["P"]
    scalar = not isinstance(P[0], (list, tuple))
    if scalar:
        pts = [(frac(conv_val(x, num)),) for x in P]
    else:
        pts = [tuple(frac(conv_val(c, num)) for c in pt) for pt in P]
    w = None if case.get("w") is None else [frac(conv_val(x, num)) for x in case["w"]]
    p = case["p"] if "p" in case else oracle.infer_degree(U)
    return State(U, p, pts, w, scalar)


def point_tuple(pt):
    try:
        return tuple(frac(c) for c in pt)
    except TypeError:
        return (frac(pt),)


def is_scalar_point(pt):
    try:
        iter(pt)
        return False
    except TypeError:
        return True


def state_of(curve):
    U = list(curve.knotvector)
    P = curve.ctrlpoints
    w = curve.weights
    if P is None:
        raise HarnessError("curve without control points")
    scalar = is_scalar_point(P[0])
    return State(U, curve.degree, [point_tuple(pt) for pt in P],
                 None if w is None else list(w), scalar)


def snapshot(curve):
    """Value snapshot (knots, points, weights) with types, for 'unchanged'."""
    U = tuple((type(u).__name__, frac(u)) for u in curve.knotvector)
    P = curve.ctrlpoints
    if P is not None:
        P = tuple(point_tuple(pt) for pt in P)
    w = curve.weights
    if w is not None:
        w = tuple(frac(x) for x in w)
    return (U, P, w)


def walk_numbers(x):
    """Yield every leaf number of a nested result."""
    if isinstance(x, (str, bytes)) or x is None:
        return
    if isinstance(x, np.ndarray):
        for v in x.flat:
            yield from walk_numbers(v)
        return
    try:
        it = iter(x)
    except TypeError:
        yield x
        return
    for v in it:
        yield from walk_numbers(v)


def inexact_leaf(x):
    """First leaf that is not an int / Fraction (i.e. a float crept in), or None."""
    for v in walk_numbers(x):
        if isinstance(v, bool) or isinstance(v, (int, F)):
            continue
        if isinstance(v, np.integer):
            continue  # integral; its *value* is checked by the oracle
        return v
    return None
