"""Runner: tiers, seeds, shards, collect -> classify -> (shrink), evidence,
known findings, replay, exit codes.  See DESIGN.md section 2."""
import argparse
import hashlib
import importlib
import json
import multiprocessing as mp
import os
import signal
import sys
import time
import traceback

ROOT = os.path.dirname(os.path.dirname(os.path.abspath(__file__)))
EVIDENCE_DIR = os.path.join(ROOT, "evidence")
REPLAY_KNOWN = os.path.join(ROOT, "replays", "known")
REPLAY_NEW = os.path.join(ROOT, "replays", "new")
KNOWN_FILE = os.path.join(ROOT, "known_findings.json")

CASE_TIMEOUT = {"quick": 60, "thorough": 180}
WALL_BUDGET = {"quick": 420, "thorough": 3000}
NWORKERS = min(16, os.cpu_count() or 1)


class CaseTimeout(BaseException):
    pass


class Outcome:
    __slots__ = ("nontrivial", "classes", "failures", "excluded", "notes")

    def __init__(self):
        self.nontrivial = False
        self.classes = []
        self.failures = []
        self.excluded = None
        self.notes = []

    def cls(self, *names):
        for n in names:
            if n and n not in self.classes:
                self.classes.append(n)

    def fail(self, clause, klass, msg):
        self.failures.append((clause, klass, str(msg)[:1500]))

    def exclude(self, reason):
        self.excluded = reason


class Facet:
    def __init__(self, name, strategy, check, quick, thorough, rule,
                 case_timeout=None):
        self.name = name
        self.strategy = strategy      # callable(tier) -> hypothesis strategy of case data
        self.check = check            # callable(case, out)
        self.quick = quick
        self.thorough = thorough
        self.rule = rule
        self.case_timeout = case_timeout


def load_property(prop):
    return importlib.import_module(f"nurbsverif.props.{prop.lower()}")


def derive_seed(base, *parts):
    h = hashlib.blake2b(repr((base,) + parts).encode(), digest_size=8).digest()
    return int.from_bytes(h, "big") % (2 ** 63)


# ----------------------------------------------------------------- one case

def run_case(facet, case, tier="quick"):
    """Run one case; never raises for library misbehaviour."""
    from . import lib
    from .oracle import NonFinite, OracleError, ZeroControlWeight
    out = Outcome()
    limit = facet.case_timeout or CASE_TIMEOUT[tier]

    def on_alarm(signum, frame):
        raise CaseTimeout()

    old = signal.signal(signal.SIGALRM, on_alarm)
    signal.setitimer(signal.ITIMER_REAL, limit)
    t_case = time.time()
    try:
        facet.check(case, out)
    except CaseTimeout:
        out.notes.append("case-timeout")
        out.excluded = "case-timeout"
    except ZeroControlWeight:
        out.excluded = "reference: a refined control weight vanishes (no finite (P, w) representation)"
    except NonFinite as exc:
        out.fail("non-finite-result", "nan-or-inf", f"the library returned a non-finite number ({exc})")
    except (OracleError, lib.HarnessError):
        raise
    except RecursionError as exc:
        if lib.from_library(exc):
            out.fail("unexpected-exception", "RecursionError@" + lib.lib_site(exc), repr(exc))
        else:
            raise
    except Exception as exc:
        if lib.from_library(exc):
            out.fail("unexpected-exception",
                     type(exc).__name__ + "@" + lib.lib_site(exc), repr(exc))
        else:
            raise
    finally:
        signal.setitimer(signal.ITIMER_REAL, 0)
        signal.signal(signal.SIGALRM, old)
        slow = os.environ.get("NURBSVERIF_SLOW")  # diagnostic only: report slow cases on stderr
        if slow and time.time() - t_case > float(slow):
            sys.stderr.write(f"SLOW {facet.name} {time.time() - t_case:.1f}s {case!r}\n"[:3000])
    return out


# ----------------------------------------------------------------- shard worker

def run_shard(task):
    try:
        return _run_shard(task)
    except BaseException:
        return {"task": task, "harness_error": traceback.format_exc()}


def _run_shard(task):
    import hypothesis
    from hypothesis import HealthCheck, Phase, given, settings
    from . import codec
    prop, fname, shard, n, seedval, tier, raise_sig = (
        task["prop"], task["facet"], task["shard"], task["n"], task["seed"],
        task["tier"], task.get("raise_sig"))
    mod = load_property(prop)
    facet = {f.name: f for f in mod.FACETS}[fname]
    t0 = time.time()
    budget = task.get("budget", WALL_BUDGET[tier])
    res = {
        "task": task, "evaluations": 0, "nontrivial": set(), "classes": {},
        "excluded": {}, "failures": {}, "samples": [], "timeouts": 0,
        "budget_hit": False, "last_failing": None,
    }
    seen = set()

    def body(case):
        if time.time() - t0 > budget:
            res["budget_hit"] = True
            return
        if res["timeouts"] >= 3:
            res["budget_hit"] = True
            return
        out = run_case(facet, case, tier)
        d = codec.digest(case)
        res["evaluations"] += 1
        if out.excluded:
            res["excluded"][out.excluded] = res["excluded"].get(out.excluded, 0) + 1
            if out.excluded == "case-timeout":
                res["timeouts"] += 1
            return
        first = d not in seen
        seen.add(d)
        if first:
            for c in out.classes:
                res["classes"][c] = res["classes"].get(c, 0) + 1
        if out.nontrivial:
            if d not in res["nontrivial"] and len(res["samples"]) < 3:
                res["samples"].append({"case": codec.pretty(case),
                                       "classes": list(out.classes)})
            res["nontrivial"].add(d)
        for clause, klass, msg in out.failures:
            sig = (fname, clause, klass)
            enc = codec.dumps(case)
            slot = res["failures"].setdefault(sig, {"count": 0, "cases": []})
            slot["count"] += 1
            slot["cases"].append((len(enc), enc, msg))
            slot["cases"].sort()
            del slot["cases"][3:]
            if raise_sig is not None and list(sig) == list(raise_sig):
                res["last_failing"] = (enc, msg)
                raise AssertionError(f"{sig}: {msg}")

    phases = [Phase.generate] if raise_sig is None else [Phase.generate, Phase.shrink]
    st = settings(
        max_examples=n, database=None, deadline=None, derandomize=False,
        report_multiple_bugs=False, phases=phases,
        suppress_health_check=[HealthCheck.too_slow, HealthCheck.data_too_large,
                               HealthCheck.large_base_example],
        print_blob=False,
    )
    test = hypothesis.seed(seedval)(st(given(facet.strategy(tier))(body)))
    try:
        test()
    except AssertionError:
        if raise_sig is None:
            raise
    res["nontrivial"] = sorted(res["nontrivial"])
    res["failures"] = [
        {"sig": list(sig), "count": v["count"],
         "cases": [{"case": c[1], "message": c[2]} for c in v["cases"]]}
        for sig, v in res["failures"].items()]
    res["wall"] = time.time() - t0
    return res


def run_replay_task(task):
    try:
        from . import codec
        mod = load_property(task["prop"])
        facet = {f.name: f for f in mod.FACETS}[task["facet"]]
        case = codec.decode(json.loads(task["case"]))
        out = run_case(facet, case, "thorough")
        return {"task": task, "failures": out.failures, "excluded": out.excluded}
    except BaseException:
        return {"task": task, "harness_error": traceback.format_exc()}


# ----------------------------------------------------------------- known findings

def load_known(prop):
    if not os.path.exists(KNOWN_FILE):
        return []
    with open(KNOWN_FILE) as fh:
        data = json.load(fh)
    return [e for e in data.get("entries", []) if e.get("property") == prop]


def match_known(entries, sig, case_enc=None):
    """Return the open finding whose narrow predicate covers this signature."""
    facet, clause, klass = sig
    for e in entries:
        if e.get("status") != "open":
            continue
        m = e.get("match", {})
        if m.get("facet") not in (None, facet):
            continue
        if m.get("clause") not in (None, clause):
            continue
        kl = m.get("klass")
        if kl is not None and kl != klass:
            continue
        kp = m.get("klass_prefix")
        if kp is not None and not klass.startswith(kp):
            continue
        kc = m.get("klass_contains")
        if kc is not None and kc not in klass:
            continue
        if kl is None and kp is None and kc is None:
            continue  # an entry without a structural predicate suppresses nothing
        return e
    return None


# ----------------------------------------------------------------- main

def write_replay(prop, sig, case_enc, message, seed, directory=REPLAY_NEW):
    os.makedirs(directory, exist_ok=True)
    dig = hashlib.blake2b(case_enc.encode(), digest_size=6).hexdigest()
    path = os.path.join(directory, f"{prop}-{sig[0]}-{dig}.json")
    import hypothesis
    import numpy
    with open(path, "w") as fh:
        json.dump({
            "property": prop, "facet": sig[0], "clause": sig[1], "klass": sig[2],
            "case": json.loads(case_enc), "message": message, "seed": seed,
            "tool_versions": {"hypothesis": hypothesis.__version__,
                              "numpy": numpy.__version__,
                              "python": sys.version.split()[0]},
        }, fh, indent=1, sort_keys=True)
    return os.path.relpath(path, ROOT)


def main(argv=None):
    ap = argparse.ArgumentParser(prog="check")
    ap.add_argument("property")
    ap.add_argument("--tier", default=os.environ.get("VERIF_TIER", "quick"),
                    choices=["quick", "thorough"])
    ap.add_argument("--replay")
    ap.add_argument("--facet", action="append")
    ap.add_argument("--scale", type=float, default=1.0,
                    help="multiply case counts (development aid)")
    ap.add_argument("--no-evidence", action="store_true")
    args = ap.parse_args(argv)
    prop = args.property.upper()
    try:
        seed = int(os.environ.get("VERIF_SEED", "1"))
    except ValueError:
        seed = 1
    t0 = time.time()
    try:
        mod = load_property(prop)
    except Exception:
        traceback.print_exc()
        print(f"HARNESS-ERROR property={prop}: cannot load the property module")
        return 2

    if args.replay:
        return replay_one(prop, mod, args.replay)

    known = load_known(prop)
    facets = [f for f in mod.FACETS if not args.facet or f.name in args.facet]
    tier = args.tier

    # -------- tasks
    tasks = []
    for f in facets:
        n = int((f.quick if tier == "quick" else f.thorough) * args.scale)
        n = max(n, 1)
        nshards = max(1, min(NWORKERS, n // 40))
        per = -(-n // nshards)
        for k in range(nshards):
            tasks.append({"kind": "shard", "prop": prop, "facet": f.name, "shard": k,
                          "n": per, "seed": derive_seed(seed, prop, f.name, k),
                          "tier": tier})
    replay_tasks = []
    for e in known:
        rp = e.get("replay")
        if not rp:
            continue
        path = os.path.join(ROOT, rp)
        with open(path) as fh:
            data = json.load(fh)
        replay_tasks.append({"kind": "replay", "prop": prop, "facet": data["facet"],
                             "case": json.dumps(data["case"]), "entry": e, "path": rp})

    ctx = mp.get_context("fork")
    results, replay_results = [], []
    harness_errors = []
    with ctx.Pool(NWORKERS, maxtasksperchild=1) as pool:
        rr = pool.map_async(run_replay_task, replay_tasks, chunksize=1)
        for res in pool.imap_unordered(run_shard, tasks, chunksize=1):
            if "harness_error" in res:
                harness_errors.append(res)
            else:
                results.append(res)
        replay_results = rr.get()
    for res in replay_results:
        if "harness_error" in res:
            harness_errors.append(res)
    extra = None
    if hasattr(mod, "EXTRA") and not args.facet:
        try:
            extra = mod.EXTRA(tier, seed)
        except Exception:
            harness_errors.append({"task": "EXTRA", "harness_error": traceback.format_exc()})

    if harness_errors:
        for h in harness_errors[:3]:
            sys.stderr.write(f"--- harness error in {h['task']}\n{h['harness_error']}\n")
        print(f"HARNESS-ERROR property={prop}: {len(harness_errors)} worker(s) failed "
              "(not a violation)")
        return 2

    # -------- merge
    per_facet = {}
    for f in facets:
        per_facet[f.name] = {"rule": f.rule, "evaluations": 0, "nontrivial": set(),
                             "classes": {}, "excluded": {}, "samples": [],
                             "budget_hit": False, "timeouts": 0}
    failures = {}
    for res in results:
        pf = per_facet[res["task"]["facet"]]
        pf["evaluations"] += res["evaluations"]
        pf["nontrivial"].update(res["nontrivial"])
        for k, v in res["classes"].items():
            pf["classes"][k] = pf["classes"].get(k, 0) + v
        for k, v in res["excluded"].items():
            pf["excluded"][k] = pf["excluded"].get(k, 0) + v
        if len(pf["samples"]) < 4:
            pf["samples"].extend(res["samples"][: 4 - len(pf["samples"])])
        pf["budget_hit"] = pf["budget_hit"] or res["budget_hit"]
        pf["timeouts"] += res["timeouts"]
        for fl in res["failures"]:
            sig = tuple(fl["sig"])
            slot = failures.setdefault(sig, {"count": 0, "cases": []})
            slot["count"] += fl["count"]
            slot["cases"].extend(fl["cases"])
    if extra:
        for sig, fl in extra.get("failures", {}).items():
            slot = failures.setdefault(tuple(sig), {"count": 0, "cases": []})
            slot["count"] += fl["count"]
            slot["cases"].extend(fl["cases"])

    # -------- classify
    lines = []
    violations = []
    known_hits = {}
    for sig, slot in sorted(failures.items()):
        slot["cases"].sort(key=lambda c: len(c["case"]))
        e = match_known(known, sig)
        if e is not None:
            known_hits.setdefault(e["id"], {"entry": e, "count": 0})
            known_hits[e["id"]]["count"] += slot["count"]
            continue
        best = slot["cases"][0]
        if tier == "thorough":
            shrunk = shrink_signature(prop, sig, seed, tasks)
            if shrunk is not None and len(shrunk[0]) <= len(best["case"]):
                best = {"case": shrunk[0], "message": shrunk[1]}
        path = write_replay(prop, sig, best["case"], best["message"], seed)
        violations.append({"sig": list(sig), "count": slot["count"], "replay": path,
                           "message": best["message"]})
    # replays of known / fixed entries
    for res in replay_results:
        e = res["task"]["entry"]
        failed = bool(res["failures"])
        if e.get("status") == "open":
            if failed:
                known_hits.setdefault(e["id"], {"entry": e, "count": 0})
                known_hits[e["id"]]["count"] += 1
            else:
                lines.append(f"NOTE: property={prop} open finding {e['id']} no longer "
                             f"reproduces from {res['task']['path']}")
        else:  # fixed: plain regression check, suppresses nothing
            if failed:
                cl = res["failures"][0]
                violations.append({"sig": [res["task"]["facet"], cl[0], cl[1]], "count": 1,
                                   "replay": res["task"]["path"],
                                   "message": "regression of fixed defect: " + cl[2]})
    for kid, kh in sorted(known_hits.items()):
        lines.append(f"KNOWN-FINDING: property={prop} {kh['entry']['what']} "
                     f"[{kid}; hit {kh['count']}x]")
    for v in violations:
        lines.append(f"VIOLATION property={prop} replay={v['replay']}")
        lines.append(f"  detail: facet={v['sig'][0]} clause={v['sig'][1]} class={v['sig'][2]} "
                     f"cases={v['count']} :: {v['message'][:300]}")

    # -------- evidence
    total_eval = sum(pf["evaluations"] for pf in per_facet.values())
    total_nt = sum(len(pf["nontrivial"]) for pf in per_facet.values())
    if extra:
        total_eval += extra.get("evaluations", 0)
        total_nt += extra.get("distinct_nontrivial", 0)
    samples = []
    for name, pf in per_facet.items():
        for s in pf["samples"][:2]:
            samples.append({"facet": name, **s})
    if extra:
        samples.extend(extra.get("samples", [])[:3])
    facets_ev = {}
    for name, pf in per_facet.items():
        facets_ev[name] = {
            "rule": pf["rule"], "evaluations": pf["evaluations"],
            "distinct_nontrivial": len(pf["nontrivial"]),
            "classes": dict(sorted(pf["classes"].items())),
            "excluded": pf["excluded"], "inconclusive_budget": pf["budget_hit"],
            "case_timeouts": pf["timeouts"],
        }
    wall = time.time() - t0
    evidence = {
        "property_id": prop, "tier": tier, "seed": seed, "level": "exploration",
        "coverage": {
            "evaluations": total_eval, "distinct_nontrivial": total_nt,
            "rule": getattr(mod, "RULE", "; ".join(f"{f.name}: {f.rule}" for f in facets)),
            "samples": samples, "facets": facets_ev,
            "known_hits": {k: v["count"] for k, v in known_hits.items()},
            "violations": violations,
            "inconclusive_budget": any(pf["budget_hit"] for pf in per_facet.values()),
            "exhaustive": bool(extra and extra.get("exhaustive")),
        },
        "assumptions": list(getattr(mod, "ASSUMPTIONS", [])),
        "wall_s": round(wall, 2), "violations": len(violations),
    }
    if extra and "coverage" in extra:
        evidence["coverage"]["extra"] = extra["coverage"]
    if not args.no_evidence and not args.facet:
        os.makedirs(EVIDENCE_DIR, exist_ok=True)
        with open(os.path.join(EVIDENCE_DIR, f"{prop}.json"), "w") as fh:
            json.dump(evidence, fh, indent=1, sort_keys=True, default=str)

    # -------- report
    for name, fe in facets_ev.items():
        print(f"[{prop}/{name}] cases={fe['evaluations']} nontrivial={fe['distinct_nontrivial']} "
              f"excluded={sum(fe['excluded'].values())}"
              + (" BUDGET" if fe["inconclusive_budget"] else ""))
    if extra:
        print(f"[{prop}/extra] {extra.get('summary', '')}")
    for ln in lines:
        print(ln)
    print(f"[{prop}] tier={tier} seed={seed} cases={total_eval} nontrivial={total_nt} "
          f"violations={len(violations)} wall={wall:.1f}s")
    if total_nt < 2 and not args.facet:
        print(f"HARNESS-ERROR property={prop}: generator produced fewer than 2 non-trivial cases")
        return 2
    return 1 if violations else 0


def shrink_signature(prop, sig, seed, tasks):
    """Thorough tier: re-run the shards of the facet raising on this signature so
    that Hypothesis minimises the case.  Returns (case_enc, message) or None."""
    ctx = mp.get_context("fork")
    cand = [dict(t, raise_sig=list(sig), budget=240) for t in tasks if t["facet"] == sig[0]]
    best = None
    with ctx.Pool(NWORKERS, maxtasksperchild=1) as pool:
        for res in pool.imap_unordered(run_shard, cand, chunksize=1):
            if "harness_error" in res:
                continue
            lf = res.get("last_failing")
            if lf and (best is None or len(lf[0]) < len(best[0])):
                best = lf
    return best


def replay_one(prop, mod, path):
    from . import codec
    with open(path) as fh:
        data = json.load(fh)
    facet = {f.name: f for f in mod.FACETS}[data["facet"]]
    case = codec.decode(data["case"])
    try:
        out = run_case(facet, case, "thorough")
    except Exception:
        traceback.print_exc()
        print(f"HARNESS-ERROR property={prop}: replay raised inside the harness")
        return 2
    known = load_known(prop)
    if not out.failures:
        print(f"[{prop}] replay {path}: property holds on this case")
        return 0
    rc = 0
    for clause, klass, msg in out.failures:
        e = match_known(known, (data["facet"], clause, klass))
        if e is not None:
            print(f"KNOWN-FINDING: property={prop} {e['what']} [{e['id']}]")
        else:
            print(f"VIOLATION property={prop} replay={path}")
            print(f"  detail: facet={data['facet']} clause={clause} class={klass} :: {msg}")
            rc = 1
    return rc
