"""C17 - KnotVector union / intersection give the common refinement / coarsening."""
from fractions import Fraction as F

from hypothesis import strategies as st

from .. import gen, lib, oracle
from ..oracle import State
from ..runner import Facet

RULE = ("pairs of knot vectors on one interval (degrees 0..4 equal or different, interior knots from one grid so "
        "that shared knots with different multiplicities and disjoint knots occur), plus pairs on different "
        "intervals; two generated splines (one over each operand) must be exactly representable on the returned "
        "union. Non-trivial: different degrees with an interior knot present, or a shared interior knot with "
        "different multiplicities")
ASSUMPTIONS = [
    "model: per knot max(mult_U + d - p, mult_V + d - q) over the vectors containing it, ends d+1 (oracle.union_model)",
    "semantic cross-check independent of the model: oracle.represent of generated splines on the library's result",
    "& is asserted for equal degrees only",
]


@st.composite
def cases(draw, nums=("frac",), pmax=4):
    (U, p), (V, q) = draw(gen.same_interval_pair(pmax=pmax, kmax=3))
    PU = draw(gen.ctrlpoints(len(U) - p - 1, 0))
    PV = draw(gen.ctrlpoints(len(V) - q - 1, 0))
    return {"U": U, "p": p, "V": V, "q": q, "PU": PU, "PV": PV,
            "num": draw(st.sampled_from(list(nums))),
            "shift": draw(st.sampled_from([None, None, None, F(1), F(-1, 2), "inside-left", "inside-right", "inside"])),
            "raw": draw(st.sampled_from([False, False, "list", "tuple", "ndarray"]))}


def check(case, out):
    num = case["num"]
    U = [lib.conv_knot(u, num) for u in case["U"]]
    V = [lib.conv_knot(u, num) for u in case["V"]]
    p, q = case["p"], case["q"]
    fU = [oracle.frac(u) for u in U]
    fV = [oracle.frac(u) for u in V]
    KU, KV = lib.KnotVector(U), lib.KnotVector(V)
    bu, bv = oracle.breaks(fU)[1:-1], oracle.breaks(fV)[1:-1]
    shared = [z for z in bu if z in bv]
    diffdeg = p != q
    out.cls("num=" + num, "different-degree" if diffdeg else "same-degree",
            ("A" if bu else "a") + ("B" if bv else "b"))
    if shared:
        out.cls("shared-knot")
    sharedmult = any(oracle.mult(fU, z) != oracle.mult(fV, z) for z in shared)
    if sharedmult:
        out.cls("shared-knot-different-mult")
    out.nontrivial = (diffdeg and bool(bu or bv)) or sharedmult
    klass = ("different-degree" if diffdeg else "same-degree") + (";interior" if (bu or bv) else ";bezier")

    if case["shift"] is not None:
        if isinstance(case["shift"], str):
            # V squeezed onto a sub-interval of U's interval (contained, sharing an end or strictly inside)
            a0, b0 = fV[0], fV[-1]
            lo = {"inside-left": F(0), "inside-right": F(1, 2), "inside": F(1, 4)}[case["shift"]]
            hi = {"inside-left": F(1, 2), "inside-right": F(1), "inside": F(3, 4)}[case["shift"]]
            V2 = lib.KnotVector([lib.conv_knot(a0 + (b0 - a0) * (lo + (hi - lo) * (v - a0) / (b0 - a0)), num) for v in fV])
        else:
            V2 = lib.KnotVector([v + lib.conv_knot(case["shift"], num) for v in V])
        out.cls("different-interval", "interval=" + str(case["shift"] if isinstance(case["shift"], str) else "shifted"))
        fV2 = [oracle.frac(v) for v in V2]
        for name, fn in (("|", lambda: KU | V2), ("&", lambda: KU & V2), ("r|", lambda: V2 | KU), ("r&", lambda: V2 & KU)):
            try:
                r = fn()
                out.fail("different-interval-accepted", klass, f"{list(KU)} {name} {list(V2)} returned {list(r)}")
            except ValueError:
                pass
        # the in-place forms: rejected as well, and a rejected request leaves both operands as they were
        import operator
        for name, op, left, right, fl, fr, dl, dr in (("|=", operator.ior, KU, V2, fU, fV2, p, q), ("&=", operator.iand, KU, V2, fU, fV2, p, q),
                                                    ("r|=", operator.ior, V2, KU, fV2, fU, q, p), ("r&=", operator.iand, V2, KU, fV2, fU, q, p)):
            try:
                r = op(left, right)
                out.fail("different-interval-accepted", klass, f"{fl} {name} {fr} returned {list(r)}")
            except ValueError:
                pass
            if [oracle.frac(x) for x in left] != fl or left.degree != dl or [oracle.frac(x) for x in right] != fr or right.degree != dr:
                out.fail("rejected-request-modified-operand", klass,
                         f"after the rejected {fl} {name} {fr}: left is {list(left)} (degree {left.degree}), right is {list(right)}")
                return
        return
    def plain(seq):
        # the operators also accept a plain sequence: list, tuple or numpy array (object dtype for Fractions)
        if case["raw"] == "ndarray":
            return lib.seq_form(seq, "objarray") if lib.is_exact(num) else lib.np.array([float(x) for x in seq])
        return tuple(seq) if case["raw"] == "tuple" else list(seq)
    if case["raw"]:
        out.cls("right-operand=" + str(case["raw"]))
    other = plain(V) if case["raw"] else KV
    W = KU | other
    W2 = KV | (plain(U) if case["raw"] else KU)
    expW, d = oracle.union_model(fU, p, fV, q)
    gotW = [oracle.frac(x) for x in W]
    if gotW != expW or W.degree != d:
        out.fail("union", klass, f"{list(KU)} | {list(KV)} = {list(W)} (degree {W.degree}); common refinement is {expW} (degree {d})")
    if [oracle.frac(x) for x in W2] != gotW:
        out.fail("union-commutative", klass, f"U|V = {list(W)} but V|U = {list(W2)}")
    if not isinstance(W, lib.KnotVector):
        out.fail("union-type", klass, f"result type {type(W).__name__}")
    why = oracle.wellformed(gotW, W.degree)
    if why:
        out.fail("union-malformed", klass, f"{list(W)}: {why}")
    elif lib.is_exact(num):
        # semantic check, independent of the model: both operand spaces are contained
        sU = State(fU, p, [(x,) for x in case["PU"]], None, True)
        sV = State(fV, q, [(x,) for x in case["PV"]], None, True)
        for nm, s in (("U", sU), ("V", sV)):
            if not oracle.in_space(s, gotW, W.degree):
                out.fail("union-not-refinement", klass,
                         f"a spline over {nm}={s.U} (degree {s.p}) is not representable on U|V={gotW} (degree {W.degree})")
        # self-validation of the model (never a failure of the library): coarsest for these splines?
        if gotW == expW:
            coarser = False
            for z in oracle.breaks(expW)[1:-1]:
                trial = list(expW)
                trial.remove(z)
                if oracle.in_space(sU, trial, d) and oracle.in_space(sV, trial, d):
                    coarser = True
            out.cls("model-coarsest-confirmed" if not coarser else "splines-not-generic")
    for nm, K, L in (("U", KU, fU), ("V", KV, fV)):
        I = K | K
        if [oracle.frac(x) for x in I] != L:
            out.fail("union-idempotent", klass, f"{nm}|{nm} = {list(I)} != {L}")
        I = K & K
        if [oracle.frac(x) for x in I] != L:
            out.fail("intersection-idempotent", klass, f"{nm}&{nm} = {list(I)} != {L}")
    if not diffdeg:
        X = KU & other
        X2 = KV & KU
        expX = oracle.intersection_model(fU, fV)
        if [oracle.frac(x) for x in X] != expX or X.degree != p:
            out.fail("intersection", klass, f"{list(KU)} & {list(KV)} = {list(X)}; per-knot minimum is {expX}")
        if [oracle.frac(x) for x in X2] != [oracle.frac(x) for x in X]:
            out.fail("intersection-commutative", klass, f"U&V = {list(X)} but V&U = {list(X2)}")
    # aliasing: results are new objects; changing them in place must not change an operand
    for res in (KU | KV, KU & KU, KU | KU, KV | KV):
        if res is KU or res is KV:
            out.fail("result-aliases-operand", klass, f"an operator returned one of its operands ({list(res)})")
            break
        try:
            res.shift(lib.conv_knot(F(1), num))
            res.degree = res.degree + 1
        except Exception as exc:
            if not lib.from_library(exc):
                raise
    if not diffdeg:
        res = KU & KV
        if res is KU or res is KV:
            out.fail("result-aliases-operand", klass, "& returned one of its operands")
        else:
            res.shift(lib.conv_knot(F(1), num))
    # in-place forms
    K3 = lib.KnotVector(list(U))
    K3 |= other
    if [oracle.frac(x) for x in K3] != gotW:
        out.fail("ior", klass, f"U |= V gives {list(K3)}, U|V gives {list(W)}")
    if [oracle.frac(x) for x in KU] != fU or [oracle.frac(x) for x in KV] != fV or KU.degree != p or KV.degree != q:
        out.fail("operand-modified", klass, f"operands changed: {list(KU)}, {list(KV)}")


FACETS = [
    Facet("exact", lambda tier: cases(("frac",)), check, quick=3000, thorough=30000, rule="Fraction knots"),
    Facet("float", lambda tier: cases(("float", "npfloat")), check, quick=1000, thorough=8000, rule="float knots"),
]
