"""C07 - splitting restricts the curve exactly; joining adjacent pieces restores it."""
from fractions import Fraction as F

from hypothesis import strategies as st

from .. import gen, lib, oracle
from ..oracle import State
from ..runner import Facet
from .c13 import build_from_state

RULE = ("split: curves (degree 0..4, any multiplicities, rational ~40%) cut at existing knots of any multiplicity, "
        "new positions, the ends, repeated nodes, 0, or split() without argument; every piece is compared exactly "
        "with the original on its sub-interval. join: the reference-built pieces of a curve are joined by the library "
        "and compared with the original (junction multiplicity must be the minimal one), and independently generated "
        "adjacent pairs (same/different degree, continuous or jumping junction, rational/polynomial) are joined and "
        "compared with both operands. Non-trivial: a cut at an existing knot or >= 2 cuts; joins: a junction that is "
        "not C^(p-1) or operands of different degree")
ASSUMPTIONS = [
    "pieces for the join facet are produced by oracle.restrict_state, not by the library's split",
    "same function decided exactly on every sub-interval (oracle.same_function_on)",
    "minimal junction multiplicity = p - (continuity order of the original there), exact derivative jumps; polynomial only",
]


@st.composite
def split_cases(draw, nums=("frac",)):
    c = draw(gen.curves(0, 4, 4, nums=nums, rational=draw(st.integers(0, 4)) < 2))
    U = c["U"]
    bk = gen.breaks_of(U)
    pool = list(bk) + list(bk[1:-1]) * 2
    for lo, hi in zip(bk[:-1], bk[1:]):
        pool += [lo + (hi - lo) * t for t in (F(1, 2), F(1, 3))]
    if bk[0] < 0 < bk[-1]:
        pool += [F(0)] * 2
    mode = draw(st.sampled_from(["nodes", "nodes", "nodes", "none", "outside"]))
    nodes = draw(st.lists(st.sampled_from(pool), min_size=0, max_size=4))
    if nodes and draw(st.booleans()):
        nodes.append(nodes[0])
    return {"curve": c, "mode": mode, "nodes": nodes, "twin_first": draw(st.integers(0, 2)) == 0,
            "container": draw(st.sampled_from(["list", "tuple", "gen", "iter", "map", "objarray"]))}


def check_split(case, out):
    c = case["curve"]
    num = c["num"]
    exact = lib.is_exact(num)
    ref = lib.case_state(c)
    curve = lib.build_curve(c)
    p = ref.p
    bk = oracle.breaks(ref.U)
    kind = ("rational" if ref.w is not None else "polynomial") + (";exact" if exact else ";float")
    out.cls("mode=" + case["mode"], kind, f"p={p}" if p < 2 else "p>=2")
    if exact and case.get("twin_first") and case["mode"] != "outside":
        out.cls("float-twin-first")
        try:
            tw = lib.build_curve(dict(c, num="float"))
            if case["mode"] == "none":
                tw.split()
            elif len(case["nodes"]) % 2:
                tw.split([F(z) for z in case["nodes"]])  # the very nodes of the exact request on the float twin
            else:
                tw.split([float(z) for z in case["nodes"]])
        except Exception as exc0:
            if not lib.from_library(exc0):
                raise
    snap = lib.snapshot(curve)
    if case["mode"] == "outside":
        bad = lib.conv_knot(bk[-1] + 1, num)
        try:
            r = curve.split([bad])
            out.fail("outside-node-accepted", kind, f"split([{bad}]) returned {len(r)} pieces")
        except (ValueError, AssertionError):
            pass
        if lib.snapshot(curve) != snap:
            out.fail("operand-modified", kind, "failed split changed the curve")
        return
    if case["mode"] == "none":
        nodes = list(bk)
        pieces = curve.split()
    else:
        lnodes = [lib.conv_knot(z, num) for z in case["nodes"]]
        nodes = [oracle.frac(z) for z in lnodes]
        pieces = curve.split(lib.seq_form(lnodes, case["container"]))
    if lib.snapshot(curve) != snap:
        out.fail("operand-modified", kind, "split changed the curve")
    cuts = sorted(set([bk[0], bk[-1]] + nodes))
    # aliasing: a fresh set of pieces is mutated in place; the original must not notice
    try:
        for pc in (curve.split() if case["mode"] == "none" else curve.split(list(lnodes))):
            if pc is curve:
                out.fail("result-aliases-operand", kind, "split returned the operand itself")
            for pt in pc.ctrlpoints:
                if hasattr(pt, "__iadd__") and hasattr(pt, "shape"):
                    pt += 1
            pc.knotvector.shift(1)
    except Exception as exc:
        if not lib.from_library(exc):
            raise
    if lib.snapshot(curve) != snap:
        out.fail("result-shares-state-with-operand", kind, "mutating the pieces of a split changed the curve")
    at_knot = any(z in bk[1:-1] for z in nodes)
    if at_knot:
        out.cls("cut-at-existing-knot")
    if any(oracle.mult(ref.U, z) >= 2 for z in nodes if z in bk[1:-1]):
        out.cls("cut-at-repeated-knot")
    if F(0) in nodes:
        out.cls("cut-at-0")
    if len(cuts) > 3:
        out.cls(">=2-cuts")
    out.nontrivial = at_knot or len(cuts) > 3
    klass = kind + (";at-knot" if at_knot else ";new-position" if len(cuts) > 2 else ";no-cut")
    if len(pieces) != len(cuts) - 1:
        out.fail("piece-count", klass, f"split({nodes}) on U={ref.U}: {len(pieces)} pieces, expected {len(cuts) - 1}")
        return
    tol = F(1, 10 ** 9) * max([abs(x) for pt in ref.P for x in pt] + [F(1)])
    for piece, lo, hi in zip(pieces, cuts[:-1], cuts[1:]):
        ps = lib.state_of(piece)
        expU = [lo] * (p + 1) + [u for u in ref.U if lo < u < hi] + [hi] * (p + 1)
        if ps.U != expU or ps.p != p:
            out.fail("piece-knotvector", klass, f"piece on [{lo},{hi}] of U={ref.U}: {ps.U} degree {ps.p}, expected {expU}")
            continue
        if len(ps.P) != len(expU) - p - 1 or (ps.w is not None and len(ps.w) != len(ps.P)):
            out.fail("piece-npts", klass, f"piece on [{lo},{hi}]: {len(ps.P)} control points")
            continue
        if (ps.w is None) != (ref.w is None):
            out.fail("piece-weights-presence", klass, f"piece on [{lo},{hi}]: weights {ps.w}, original {ref.w}")
            continue
        if exact:
            wit = oracle.same_function_on(ref, ps, lo, hi)
            if wit is not None:
                out.fail("piece-differs", klass,
                         f"split({nodes}) of U={ref.U} P={ref.P} w={ref.w}: piece [{lo},{hi}] at u={wit[0]}: original {wit[1]}, piece {wit[2]}")
        else:
            m = 2 * p + 2
            worst = F(0)
            sub = [lo] + [u for u in oracle.breaks(ref.U) if lo < u < hi] + [hi]
            for a, b in zip(sub[:-1], sub[1:]):
                for u in oracle.interior_samples(a, b, m):
                    x, y = oracle.ceval(ref, u), oracle.ceval(ps, u)
                    worst = max(worst, max(abs(s - t) for s, t in zip(x, y)))
            if worst > tol:
                out.fail("piece-differs", klass, f"split({nodes}) of U={ref.U}: piece [{lo},{hi}] deviates by {float(worst):.3e}")


@st.composite
def join_split_cases(draw):
    if draw(st.integers(0, 4)) == 0:
        # rational curves in which only the weight function (or only the numerator) has a kink at an interior knot:
        # cut exactly there, so that the junction knot is needed by one half of the homogeneous representation only
        Ulow, plow = draw(gen.knotvectors(1, 2, 1))
        bkl = gen.breaks_of(Ulow)
        z = (bkl[0] + bkl[1]) / 2
        Uhigh = sorted(Ulow + [z] * draw(st.integers(1, plow)))
        c, kind = draw(gen.special_rational(Ulow, plow, Uhigh, plow))
        return {"curve": c, "cuts": [z], "special": kind}
    c = draw(gen.curves(0, 3, 3, nums=("frac",), rational=draw(st.integers(0, 4)) < 2))
    bk = gen.breaks_of(c["U"])
    pool = list(bk[1:-1]) * 2
    for lo, hi in zip(bk[:-1], bk[1:]):
        pool += [lo + (hi - lo) * t for t in (F(1, 2), F(2, 5))]
    cuts = draw(st.lists(st.sampled_from(pool), min_size=1, max_size=3, unique=True))
    return {"curve": c, "cuts": sorted(cuts)}


def check_join_split(case, out):
    ref = lib.case_state(case["curve"])
    p = ref.p
    bk = oracle.breaks(ref.U)
    cuts = [bk[0]] + list(case["cuts"]) + [bk[-1]]
    kind = "rational" if ref.w is not None else "polynomial"
    if case.get("special"):
        out.cls("special=" + case["special"])
        kind += ";" + case["special"]
    pieces = [oracle.restrict_state(ref, lo, hi) for lo, hi in zip(cuts[:-1], cuts[1:])]
    curves = [build_from_state(s) for s in pieces]
    snaps = [lib.snapshot(c) for c in curves]
    joined = curves[0]
    for nxt in curves[1:]:
        joined = joined | nxt
    for c, s in zip(curves, snaps):
        if lib.snapshot(c) != s:
            out.fail("operand-modified", kind, "join changed an operand")
    js = lib.state_of(joined)
    at_knot = any(z in bk for z in case["cuts"])
    orders = {}
    if ref.w is None:
        refined = ref
        for z in case["cuts"]:
            if z not in refined.U:
                refined = oracle.boehm_insert(refined, z)
        for z in case["cuts"]:
            orders[z] = oracle.continuity_order(refined, z)
    rough = any(k < p - 1 for k in orders.values())
    out.cls(kind, "cut-at-knot" if at_knot else "cut-inside-span", f"{len(case['cuts'])}-junctions")
    if rough:
        out.cls("junction-not-C^(p-1)")
    if any(k < 0 for k in orders.values()):
        out.cls("junction-discontinuous")
    out.nontrivial = rough or len(case["cuts"]) >= 2
    klass = kind + (";discontinuous" if any(k < 0 for k in orders.values()) else ";rough" if rough else ";smooth") + \
        (";p=0" if p == 0 else "")
    if js.limits != ref.limits:
        out.fail("join-interval", klass, f"joined curve on {js.limits}, original on {ref.limits}")
        return
    wit = oracle.same_function(ref, js)
    if wit is not None:
        out.fail("join-differs", klass,
                 f"pieces of U={ref.U} P={ref.P} w={ref.w} cut at {case['cuts']}: joined curve at u={wit[0]} gives {wit[2]}, original {wit[1]}")
        return
    if ref.w is None:
        expU = []
        for z in oracle.breaks(sorted(ref.U + list(case["cuts"]))):
            if z in case["cuts"]:
                m = p - orders[z]
            else:
                m = oracle.mult(ref.U, z)
            expU += [z] * m
        if js.U != expU or js.p != p:
            out.fail("join-knotvector", klass,
                     f"pieces of U={ref.U} cut at {case['cuts']}: joined knot vector {js.U} (degree {js.p}), expected {expU}")


@st.composite
def join_pair_cases(draw):
    a, m = draw(gen.intervals(zero_inside=False))
    length = draw(st.sampled_from([F(1), F(1, 2), F(2)]))
    ratA = draw(st.integers(0, 3)) == 0
    ratB = draw(st.integers(0, 3)) == 0
    dim = draw(st.sampled_from([0, 0, 2]))
    A = draw(gen.curves(0, 3, 2, rational=ratA, dim=dim, interval=(a, m)))
    samedeg = draw(st.booleans())
    B = draw(gen.curves(0, 3, 2, rational=ratB, dim=dim, interval=(m, m + length),
                        degree=A["p"] if samedeg else None))
    junction = draw(st.sampled_from(["continuous", "continuous", "jump"]))
    return {"A": A, "B": B, "junction": junction, "gap": draw(st.sampled_from([None, None, None, F(1, 10)]))}


def check_join_pair(case, out):
    a, b = lib.case_state(case["A"]), lib.case_state(case["B"])
    if case["junction"] == "continuous":
        # make B start where A ends (first control point of a clamped curve is its start value)
        b.P[0] = a.P[-1]
    kindA = "R" if a.w is not None else "P"
    kindB = "R" if b.w is not None else "P"
    jump = a.P[-1] != b.P[0]
    out.cls("kinds=" + kindA + kindB, "jump" if jump else "continuous",
            "degrees-differ" if a.p != b.p else "degrees-equal")
    out.nontrivial = jump or a.p != b.p or (a.p >= 2)
    klass = f"{kindA}{kindB};{'jump' if jump else 'continuous'};{'degdiff' if a.p != b.p else 'degsame'}" + \
        (";p=0" if max(a.p, b.p) == 0 else "")
    if case["gap"] is not None:
        b2 = State([u + case["gap"] for u in b.U], b.p, b.P, b.w, b.scalar)
        A, B = build_from_state(a), build_from_state(b2)
        try:
            r = A | B
            out.fail("gap-accepted", klass, f"A on {a.limits} | B on {b2.limits} returned a curve on {list(r.knotvector)}")
        except ValueError:
            pass
        return
    A, B = build_from_state(a), build_from_state(b)
    sa, sb = lib.snapshot(A), lib.snapshot(B)
    J = A | B
    if lib.snapshot(A) != sa or lib.snapshot(B) != sb:
        out.fail("operand-modified", klass, "join changed an operand")
    js = lib.state_of(J)
    if js.limits != (a.limits[0], b.limits[1]):
        out.fail("join-interval", klass, f"A|B on {js.limits}")
        return
    for name, s in (("A", a), ("B", b)):
        wit = oracle.same_function_on(s, js, s.limits[0], s.limits[1])
        if wit is not None:
            out.fail("join-differs-from-" + name, klass,
                     f"A: U={a.U} P={a.P} w={a.w}; B: U={b.U} P={b.P} w={b.w}: (A|B)({wit[0]}) = {wit[2]}, {name} gives {wit[1]}")
            return
    # a junction where the two curves meet continuously needs at most multiplicity degree (C0), also for
    # rational operands whose junction weights differ (weights of one side can be rescaled freely)
    m = b.limits[0]
    if not jump and js.p >= 1 and oracle.mult(js.U, m) > js.p:
        out.fail("junction-multiplicity-not-minimal", klass,
                 f"A: U={a.U} P={a.P} w={a.w}; B: U={b.U} P={b.P} w={b.w}: curves meet continuously at {m} but the joined "
                 f"knot vector {js.U} keeps multiplicity {oracle.mult(js.U, m)} > degree {js.p} there")
    # value at the junction itself: right-continuous -> B's start value
    if oracle.ceval(js, m) != oracle.ceval(b, m):
        out.fail("join-junction-value", klass, f"(A|B)({m}) = {oracle.ceval(js, m)}, B({m}) = {oracle.ceval(b, m)}")


FACETS = [
    Facet("split", lambda tier: split_cases(("frac", "frac", "fracint")), check_split, quick=500, thorough=9000,
          rule="pieces equal the original on their sub-interval (exact)"),
    Facet("split-float", lambda tier: split_cases(("float", "npfloat")), check_split, quick=150, thorough=2500,
          rule="float data, 1e-9"),
    Facet("join-split", lambda tier: join_split_cases(), check_join_split, quick=300, thorough=5000,
          rule="joining reference-built pieces restores the original with minimal junction multiplicity"),
    Facet("join-pair", lambda tier: join_pair_cases(), check_join_pair, quick=300, thorough=5000,
          rule="independently built adjacent pairs"),
]
