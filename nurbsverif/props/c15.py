"""C15 - curves stay consistent; failed operations are atomic; operands stay untouched.

Histories are generated as data: a list of abstract operations on three
curves (c1 and c2 are built from the *same* KnotVector object, c3 lives on the
same interval with another vector).  After every step the structural invariant
and value snapshots are checked."""
import copy as _copy
from fractions import Fraction as F

import numpy as np
from hypothesis import strategies as st

from .. import gen, lib, oracle
from ..runner import Facet

RULE = ("histories of 4..25 (40 thorough) operations on three curves, two of them built from one KnotVector object: "
        "every public mutator with valid and invalid arguments (knot_insert, knot_remove, knot_clean, degree_increase, "
        "degree_decrease, degree setter, degree_clean, clean, ctrlpoints / weights / knotvector setters, fit_curve, "
        "fit_points) and every non-mutating operation (evaluation inside and outside, + - * / @ with curves and scalars, "
        "==, split, fraction, copy / deepcopy followed by mutation of the copy, Derivate, Integrate, Projection, "
        "Intersection, fitting another curve to it). Non-trivial: >= 4 steps with a raising step followed later by a "
        "successful mutation")
ASSUMPTIONS = [
    "the check does not decide which requests must raise (C04-C06 do); only 'raised => nothing changed', "
    "'returned => state consistent' and 'non-mutating => nothing changed'",
    "snapshots compare knot vector, control points and weights by value and type",
    "invalid weights are generated with transversal sign changes; a weight function that only touches zero (root of even "
    "multiplicity) is not detected by the library's sampling test and is not generated",
]

TARGETS = ["c1", "c2", "c3"]
MUTATORS = ["knot_insert", "knot_insert_bad", "knot_remove", "knot_remove_bad", "knot_clean", "degree_increase",
            "degree_increase_bad", "degree_decrease", "degree_set", "degree_set_bad", "degree_clean", "clean",
            "ctrlpoints_ok", "ctrlpoints_badlen", "ctrlpoints_noniter", "weights_ok", "weights_badlen", "weights_zero",
            "weights_none", "knotvector_refine", "knotvector_other", "fit_curve", "fit_points_few", "fit_points_ok",
            "fit_rational"]
READERS = ["eval", "eval_outside", "add", "sub", "mul", "div", "neg", "scalar_ops", "eq", "split", "fraction",
           "copy_mutate", "deepcopy_mutate", "derivate", "integrate", "fit_other", "or_join", "projection",
           "intersection"]


def op_strategy():
    return st.tuples(st.sampled_from(MUTATORS * 2 + READERS), st.sampled_from(TARGETS), st.sampled_from(TARGETS),
                     st.integers(0, 7), st.sampled_from([F(1, 2), F(1, 3), F(3, 4)]))


@st.composite
def histories(draw, num, maxsteps):
    a, b = draw(gen.intervals())
    U, p = draw(gen.knotvectors(0, 2, 2, interval=(a, b)))
    V, q = draw(gen.knotvectors(0, 2, 2, interval=(a, b)))
    n, m = len(U) - p - 1, len(V) - q - 1
    dim = draw(st.sampled_from([0, 0, 2]))
    return {"U": U, "p": p, "V": V, "q": q, "num": num, "dim": dim,
            "P1": draw(gen.ctrlpoints(n, dim)), "P2": draw(gen.ctrlpoints(n, dim)), "P3": draw(gen.ctrlpoints(m, dim)),
            "w2": draw(st.one_of(st.none(), gen.pos_weights(n))),
            "steps": draw(st.lists(op_strategy(), min_size=4, max_size=maxsteps))}


def structural_problem(curve):
    try:
        kv = curve.knotvector
        n = kv.npts
        if len(kv) - kv.degree - 1 != n or curve.npts != n or curve.degree != kv.degree:
            return f"npts={curve.npts}, knot vector {list(kv)} degree {kv.degree}"
        why = oracle.wellformed([oracle.frac(u) for u in kv], kv.degree)
        if why:
            return f"knot vector {list(kv)}: {why}"
        P = curve.ctrlpoints
        if P is None:
            return "control points are None"
        if len(P) != n:
            return f"{len(P)} control points, npts={n}"
        w = curve.weights
        if w is not None and len(w) != n:
            return f"{len(w)} weights, npts={n}"
        bk = oracle.breaks([oracle.frac(u) for u in kv])
        for u in (kv[0], kv[-1], (kv[0] + kv[-1]) / 2):
            curve(u)
    except Exception as exc:
        if lib.from_library(exc) or isinstance(exc, (ValueError, TypeError, ZeroDivisionError, IndexError)):
            return f"{type(exc).__name__}: {exc}"
        raise
    return None


def check(case, out):
    num = case["num"]
    U = [lib.conv_knot(u, num) for u in case["U"]]
    V = [lib.conv_knot(u, num) for u in case["V"]]
    shared = lib.KnotVector(U)
    shared_list = list(shared)
    cs = {
        "c1": lib.Curve(shared, lib.conv_points(case["P1"], num)),
        "c2": lib.Curve(shared, lib.conv_points(case["P2"], num),
                        None if case["w2"] is None else [lib.conv_val(x, num) for x in case["w2"]]),
        "c3": lib.Curve(V, lib.conv_points(case["P3"], num)),
    }
    out.cls("num=" + num, "shared-object" if cs["c1"].knotvector is cs["c2"].knotvector else "not-shared",
            "dim=%d" % case["dim"])
    klass0 = "exact" if lib.is_exact(num) else "float"
    raised_before = False
    good_after_raise = False
    nsteps = 0
    for idx, (name, tname, oname, k, t) in enumerate(case["steps"], 1):
        target, other = cs[tname], cs[oname]
        snaps = {nm: lib.snapshot(c) for nm, c in cs.items()}
        mutator = name in MUTATORS
        out.cls("op=" + name)
        st_ = lib.state_of(target)
        bk = oracle.breaks(st_.U)
        z_new = lib.conv_knot(bk[k % (len(bk) - 1)] + (bk[k % (len(bk) - 1) + 1] - bk[k % (len(bk) - 1)]) * t, num)
        z_old = list(target.knotvector)[min(len(st_.U) - 1, st_.p + 1 + k % max(1, len(st_.U) - 2 * st_.p - 2))] \
            if len(bk) > 2 else None
        exc = None
        try:
            run_step(name, target, other, cs, z_new, z_old, k, t, num, out, klass0, idx)
        except Exception as e:  # the property does not constrain exception types: any library exception is 'raised'
            if not lib.from_library(e):
                raise
            exc = e
        nsteps += 1
        where = f"step {idx} {name}({tname},{oname})"
        klass = f"{klass0};{name}"
        after = {nm: lib.snapshot(c) for nm, c in cs.items()}
        for nm in cs:
            changed = after[nm] != snaps[nm]
            if nm != tname and changed:
                out.fail("other-curve-modified", klass, f"{where}: curve {nm} changed although the step targets {tname}")
            elif nm == tname and changed and not mutator:
                out.fail("operand-modified", klass, f"{where}: non-mutating operation changed its operand")
            elif nm == tname and changed and exc is not None:
                out.fail("atomicity", klass,
                         f"{where}: raised {type(exc).__name__} ({exc}) but the curve changed: "
                         f"U={list(cs[nm].knotvector)} P={cs[nm].ctrlpoints} w={cs[nm].weights}")
        for nm, c in cs.items():
            sp = structural_problem(c)
            if sp:
                out.fail("inconsistent-state", klass, f"after {where}: curve {nm}: {sp}")
                # rebuild so that the history can continue
                cs[nm] = lib.Curve(V, lib.conv_points(case["P3"], num))
        if list(shared) != shared_list:
            out.fail("shared-knotvector-mutated", klass, f"{where}: the KnotVector object used to build c1 and c2 changed to {list(shared)}")
            shared_list = list(shared)
        if exc is not None:
            raised_before = True
            out.cls("raised")
        elif mutator and after[tname] != snaps[tname] and raised_before:
            good_after_raise = True
    out.nontrivial = nsteps >= 4 and good_after_raise


def run_step(name, c, other, cs, z_new, z_old, k, t, num, out, klass0, idx):
    from compmec.nurbs.calculus import Derivate, Integrate
    n = c.npts
    zero = 0 * c.ctrlpoints[0] if c.ctrlpoints is not None else 0
    umin, umax = c.knotvector.limits
    # node sequences are handed over in any accepted form (list / tuple / one-shot iterable), fixed by the step data
    form = ("list", "gen", "tuple", "iter", "list", "map")[(k + idx) % 6]

    order = lib.SEQ_ORDERS[(k * 3 + idx) % len(lib.SEQ_ORDERS)]

    def sq(values):
        # ... and in any order: nothing says a request lists its nodes increasingly
        return lib.seq_form(lib.reorder(values, order), form)
    if name == "knot_insert":
        c.knot_insert(sq([z_new] if k % 2 else [z_new, z_new][: 1 + (c.degree > 0)]))
    elif name == "knot_insert_bad":
        c.knot_insert(sq([z_new, umax + (umax - umin), z_new] if k % 2 else [umin, z_new, umax]))
    elif name == "knot_remove":
        c.knot_remove(sq([z_old] if z_old is not None else [z_new]), None if k % 3 == 0 else 1e-9)
    elif name == "knot_remove_bad":
        c.knot_remove(sq([z_new] if k % 2 else [umin]))
    elif name == "knot_clean":
        c.knot_clean()
    elif name == "degree_increase":
        if c.degree < 4:
            c.degree_increase(1 + k % 2)
    elif name == "degree_increase_bad":
        c.degree_increase([0, -1, 1.5][k % 3])
    elif name == "degree_decrease":
        if k % 4 == 3 and c.degree <= 2:
            # history inside one step: elevate by one, then ask for a drop of two or three levels in one call
            # (only partly possible for a generic curve): if it raises, the elevated curve must still be there
            c.degree_increase(1)
            mid = lib.snapshot(c)
            try:
                c.degree_decrease(2 + (k // 4) % 2)
            except Exception as exc:
                if not lib.from_library(exc):
                    raise
                if lib.snapshot(c) != mid:
                    out.fail("atomicity", f"{klass0};degree_decrease-multi",
                             f"step {idx}: degree_decrease({2 + (k // 4) % 2}) after one elevation raised {type(exc).__name__} "
                             f"({exc}) but left a partly reduced curve: U={list(c.knotvector)}")
        else:
            c.degree_decrease(1 + (k % 3 == 2), None if k % 2 else 1e-9)
    elif name == "degree_set":
        c.degree = min(4, max(0, c.degree + (k % 5) - 2))
    elif name == "degree_set_bad":
        c.degree = [-1, 1.5, "a"][k % 3]
    elif name == "degree_clean":
        c.degree_clean()
    elif name == "clean":
        c.clean()
    elif name == "ctrlpoints_ok":
        c.ctrlpoints = [pt + pt for pt in c.ctrlpoints]
    elif name == "ctrlpoints_badlen":
        c.ctrlpoints = list(c.ctrlpoints) + [c.ctrlpoints[0]] if k % 2 else list(c.ctrlpoints)[:-1] or [zero, zero]
    elif name == "ctrlpoints_noniter":
        c.ctrlpoints = [5, "abc"][k % 2]
    elif name == "weights_ok":
        c.weights = [lib.conv_val(F(1 + (i + k) % 4, 1 + (k % 3)), num) for i in range(n)]
    elif name == "weights_badlen":
        c.weights = [lib.conv_val(F(1), num)] * (n + 1 if k % 2 else max(n - 1, 1) if n > 1 else 2)
    elif name == "weights_zero":
        if n >= 2:
            c.weights = [lib.conv_val(F(1 if i % 2 == 0 else -3), num) for i in range(n)]  # transversal sign changes
        else:
            c.weights = ["a"]
    elif name == "weights_none":
        c.weights = None
    elif name == "knotvector_refine":
        kv = c.knotvector + [z_new]
        c.knotvector = kv
    elif name == "knotvector_other":
        c.knotvector = [u + 1 for u in c.knotvector]
    elif name == "fit_curve":
        c.fit_curve(other)
    elif name == "fit_rational":
        # fit a rational Bezier curve of higher degree with very unequal weights: the projected weight function may
        # change sign, in which case the request is refused - and must leave c as it was
        deg = c.degree + 1 + k % 2
        one = lib.conv_val(F(1), num)
        pts = [c.ctrlpoints[i % n] + (i % 3) * c.ctrlpoints[0] for i in range(deg + 1)]
        R = lib.Curve([umin] * (deg + 1) + [umax] * (deg + 1), pts, [100 * one] + [one] * deg)
        c.fit_curve(R)
    elif name == "fit_points_few":
        c.fit_points([zero] * max(n - 1, 0))
    elif name == "fit_points_ok":
        pts = [c(u) for u in np.linspace(float(umin), float(umax), n + 2)] if not lib.is_exact(num) else \
            [c(umin + (umax - umin) * F(i, n + 1)) for i in range(n + 2)]
        c.fit_points(pts)
    # ---------------- non-mutating
    elif name == "eval":
        c(z_new)
        c([umin, z_new, umax])
    elif name == "eval_outside":
        c(umax + (umax - umin))
    elif name == "add":
        r = c + other
        structural_result(r, out, klass0, name, idx)
    elif name == "sub":
        structural_result(c - other, out, klass0, name, idx)
    elif name == "mul":
        structural_result(c * other, out, klass0, name, idx)
    elif name == "div":
        # a quotient is only defined where the denominator has no zero (C08): certified exactly, both signs
        so = lib.state_of(other)
        vals = [pt[0] for pt in so.P] if so.scalar and so.w is None else None
        from .. import gen as _gen
        certified = vals is not None and (_gen.weight_function_positive(so.U, so.p, vals)
                                          or _gen.weight_function_positive(so.U, so.p, [-v for v in vals]))
        samples = [oracle.ceval(so, u)[0] for u in _gen.params_of(so.U, 3)] if so.scalar else []
        crossing = any(x > 0 for x in samples) and any(x < 0 for x in samples)  # a transversal zero: must be refused
        if certified or crossing or vals is None:
            structural_result(c / other, out, klass0, name, idx)
        else:
            out.cls("div-skipped:denominator-may-vanish")
    elif name == "neg":
        structural_result(-c, out, klass0, name, idx)
    elif name == "scalar_ops":
        s = lib.conv_val(F(3, 2), num)
        for r in (c * s, s * c, c / s, c + zero, zero + c, c - zero):
            structural_result(r, out, klass0, name, idx)
    elif name == "eq":
        c == other
        c != other
        c == 5
    elif name == "split":
        for pc in c.split(sq([z_new]) if k % 2 else ([] if k % 4 == 0 else None)):
            structural_result(pc, out, klass0, name, idx)
            if pc is c:
                out.fail("result-aliases-operand", f"{klass0};{name}", f"step {idx}: split returned the operand itself")
            # the returned pieces are the caller's: changing them must not change the operand
            if pc.degree < 4:
                pc.degree_increase(1)
            pc.ctrlpoints = [pt + pt for pt in pc.ctrlpoints]
    elif name == "fraction":
        num_, den_ = c.fraction()
        structural_result(num_, out, klass0, name, idx)
        num_.knot_insert([z_new])
        num_.ctrlpoints = [pt + pt for pt in num_.ctrlpoints]
    elif name in ("copy_mutate", "deepcopy_mutate"):
        cp = _copy.copy(c) if name == "copy_mutate" else _copy.deepcopy(c)
        if cp is c or cp.knotvector is c.knotvector:
            out.fail("copy-shares-state", f"{klass0};{name}", f"step {idx}: the copy shares the knot vector object")
        cp.knot_insert([z_new])
        cp.degree_increase(1)
        cp.ctrlpoints = [pt + pt for pt in cp.ctrlpoints]
        cp.knotvector.shift(1)
        structural_result(cp, out, klass0, name, idx)
    elif name == "derivate":
        structural_result(Derivate(c), out, klass0, name, idx)
    elif name == "integrate":
        if lib.is_scalar_point(c.ctrlpoints[0]):
            Integrate.scalar(c)
        else:
            Integrate.lenght(c)
    elif name == "fit_other":
        tmp = lib.Curve(list(other.knotvector))
        tmp.fit_curve(c)
    elif name == "or_join":
        shifted = _copy.deepcopy(other)
        length = umax - umin
        sh = lib.Curve([u + length for u in other.knotvector], other.ctrlpoints, other.weights) \
            if other.knotvector.limits == c.knotvector.limits else None
        if sh is not None:
            snap_sh = lib.snapshot(sh)
            structural_result(c | sh, out, klass0, name, idx)
            # the temporary right operand is an operand too (its degree may be lower or higher than the left one's)
            if lib.snapshot(sh) != snap_sh:
                out.fail("operand-modified", klass0 + ";or_join",
                         f"step {idx}: A | B changed its right operand: degree {sh.degree}, knot vector {list(sh.knotvector)}")
    elif name == "projection":
        from compmec.nurbs.advanced import Projection
        if not lib.is_scalar_point(c.ctrlpoints[0]) and not lib.is_exact(num) and c.degree >= 1:
            Projection.point_on_curve(np.array([0.5, -0.25]), c)
    elif name == "intersection":
        from compmec.nurbs.advanced import Intersection
        if not lib.is_scalar_point(c.ctrlpoints[0]) and not lib.is_exact(num) and c.degree >= 1 and other.degree >= 1 \
                and other is not c and c.weights is None and other.weights is None:
            Intersection.curve_and_curve(c, other)


def structural_result(r, out, klass0, name, idx):
    if isinstance(r, lib.Curve):
        sp = structural_problem(r)
        if sp:
            out.fail("inconsistent-result", f"{klass0};{name}", f"step {idx} {name}: result is inconsistent: {sp}")


# ---------------------------------------------------------------- curves that have no control points yet
# "starting from any curve": Curve(knotvector) without control points is the usual state before a fit. It shares the
# KnotVector object with two populated curves; every request goes to the empty curve until a step populates it.
EMPTY_SAFE = ["knot_insert", "knot_insert_bad", "knot_remove", "knot_remove_bad", "knot_clean", "degree_increase",
              "degree_increase_bad", "degree_decrease", "degree_set", "degree_set_bad", "degree_clean", "clean",
              "ctrlpoints_noniter", "weights_ok", "weights_badlen", "weights_zero", "weights_none", "knotvector_refine",
              "knotvector_other", "fit_points_few", "eval", "eval_outside", "eq", "copy_mutate_empty"]
EMPTY_POPULATE = ["fit_curve", "ctrlpoints_set", "ctrlpoints_set_badlen"]


@st.composite
def empty_histories(draw, num, maxsteps):
    case = draw(histories(num, 4))
    steps = draw(st.lists(st.tuples(st.sampled_from(EMPTY_SAFE * 3 + EMPTY_POPULATE + MUTATORS + READERS),
                                    st.sampled_from(["c1", "c2"]), st.integers(0, 7),
                                    st.sampled_from([F(1, 2), F(1, 3), F(3, 4)])), min_size=3, max_size=maxsteps))
    return dict(case, steps=steps)


def empty_structure(curve):
    kv = curve.knotvector
    if len(kv) - kv.degree - 1 != kv.npts or curve.npts != kv.npts or curve.degree != kv.degree:
        return f"npts={curve.npts}, degree={curve.degree}, knot vector {list(kv)} (degree {kv.degree}, npts {kv.npts})"
    why = oracle.wellformed([oracle.frac(u) for u in kv], kv.degree)
    if why:
        return f"knot vector {list(kv)}: {why}"
    if curve.ctrlpoints is not None and len(curve.ctrlpoints) != kv.npts:
        return f"{len(curve.ctrlpoints)} control points, npts={kv.npts}"
    if curve.weights is not None and len(curve.weights) != kv.npts:
        return f"{len(curve.weights)} weights, npts={kv.npts}"
    return None


def check_empty(case, out):
    num = case["num"]
    U = [lib.conv_knot(u, num) for u in case["U"]]
    shared = lib.KnotVector(U)
    shared_list = list(shared)
    cs = {
        "c1": lib.Curve(shared, lib.conv_points(case["P1"], num)),
        "c2": lib.Curve(shared, lib.conv_points(case["P2"], num),
                        None if case["w2"] is None else [lib.conv_val(x, num) for x in case["w2"]]),
        "e": lib.Curve(shared),
    }
    klass0 = ("exact" if lib.is_exact(num) else "float") + ";empty"
    out.cls("num=" + num, "shared-object" if cs["e"].knotvector is cs["c1"].knotvector else "not-shared")
    changed_while_empty = 0
    for idx, (name, oname, k, t) in enumerate(case["steps"], 1):
        e, other = cs["e"], cs[oname]
        empty = e.ctrlpoints is None
        if empty and name not in EMPTY_SAFE + EMPTY_POPULATE:
            continue
        if not empty and name in ("ctrlpoints_set", "ctrlpoints_set_badlen", "copy_mutate_empty"):
            continue
        out.cls(("empty:" if empty else "populated:") + "op=" + name)
        snaps = {nm: lib.snapshot(c) for nm, c in cs.items()}
        fU = [oracle.frac(u) for u in e.knotvector]
        bk = oracle.breaks(fU)
        j = k % (len(bk) - 1)
        z_new = lib.conv_knot(bk[j] + (bk[j + 1] - bk[j]) * t, num)
        z_old = list(e.knotvector)[min(len(fU) - 1, e.degree + 1 + k % max(1, len(fU) - 2 * e.degree - 2))] \
            if len(bk) > 2 else None
        exc = None
        try:
            def newpoints(count):
                # (points of the same kind as those of the sibling curves: later steps combine them)
                if case["dim"]:
                    return lib.conv_points([[F(i + k, 3) + j for j in range(case["dim"])] for i in range(count)], num)
                return [lib.conv_val(F(i + k, 3), num) for i in range(count)]
            if name == "ctrlpoints_set":
                e.ctrlpoints = newpoints(e.npts)
            elif name == "ctrlpoints_set_badlen":
                e.ctrlpoints = newpoints(e.npts + 1 + k % 2)
            elif name == "copy_mutate_empty":
                cp = _copy.copy(e) if k % 2 else _copy.deepcopy(e)
                if cp is e or cp.knotvector is e.knotvector:
                    out.fail("copy-shares-state", klass0 + ";copy", f"step {idx}: the copy shares the knot vector object")
                cp.knot_insert([z_new])
                cp.degree_increase(1)
                cp.knotvector.shift(1)
            else:
                run_step(name, e, other, cs, z_new, z_old, k, t, num, out, klass0, idx)
        except Exception as ex:
            if not lib.from_library(ex):
                raise
            exc = ex
        where = f"step {idx} {name}(e{'' if empty else ' populated'},{oname})"
        klass = f"{klass0};{name}"
        after = {nm: lib.snapshot(c) for nm, c in cs.items()}
        for nm in ("c1", "c2"):
            if after[nm] != snaps[nm]:
                out.fail("other-curve-modified", klass, f"{where}: curve {nm} changed although the step targets the curve e")
            sp = structural_problem(cs[nm])
            if sp:
                out.fail("inconsistent-state", klass, f"after {where}: curve {nm}: {sp}")
                cs[nm] = lib.Curve(list(shared_list), lib.conv_points(case["P1"], num))
        mutator = name in MUTATORS or name in ("ctrlpoints_set", "ctrlpoints_set_badlen")
        if after["e"] != snaps["e"]:
            if exc is not None:
                out.fail("atomicity", klass, f"{where}: raised {type(exc).__name__} ({exc}) but the curve changed: "
                                             f"U={list(e.knotvector)} P={e.ctrlpoints} w={e.weights}")
            elif not mutator:
                out.fail("operand-modified", klass, f"{where}: non-mutating operation changed its operand")
            elif empty:
                changed_while_empty += 1
        sp = empty_structure(cs["e"]) if cs["e"].ctrlpoints is None else structural_problem(cs["e"])
        if sp:
            out.fail("inconsistent-state", klass, f"after {where}: curve e: {sp}")
            cs["e"] = lib.Curve(list(shared_list))
        if list(shared) != shared_list:
            out.fail("shared-knotvector-mutated", klass,
                     f"{where}: the KnotVector object used to build e, c1 and c2 changed to {list(shared)}")
            shared_list = list(shared)
        if exc is not None:
            out.cls("raised")
    out.nontrivial = changed_while_empty >= 1


FACETS = [
    Facet("history-exact", lambda tier: histories("frac", 25 if tier == "quick" else 40), check, quick=400, thorough=3500,
          rule="Fraction data", case_timeout=180),
    Facet("history-float", lambda tier: histories("float", 25 if tier == "quick" else 40), check, quick=280,
          thorough=2500, rule="float data (includes Projection / Intersection steps on 2-D curves)", case_timeout=180),
    Facet("history-empty", lambda tier: st.sampled_from(["frac", "frac", "float"]).flatmap(
        lambda num: empty_histories(num, 12 if tier == "quick" else 20)), check_empty,
          quick=500, thorough=4000, case_timeout=180,
          rule="a curve without control points built from the KnotVector object of two populated curves; requests go "
               "to the empty curve until a fit or the ctrlpoints setter populates it (non-trivial: a request changed "
               "the empty curve)"),
]
