"""C18 - generators and affine maps produce exactly the advertised knot vectors."""
import math
import multiprocessing as mp
from fractions import Fraction as F

import numpy as np
from hypothesis import strategies as st

from .. import codec, gen, lib, oracle
from ..runner import NWORKERS, Facet

RULE = ("exhaustive sweep over degree 0..6 x npts (degree+1 .. degree+60 quick / +400 thorough) x cls in "
        "{int, float, Fraction} for bezier/integer/uniform against closed forms (limits exactly (0,1)); Hypothesis "
        "for random() under generated numpy seeds, weight() with generated weight vectors, and shift/scale/"
        "normalize with invariance of basis functions and curves under reparametrisation. Non-trivial: at least "
        "two interior knots (npts - degree >= 3), or an affine map on a vector with a repeated interior knot")
ASSUMPTIONS = [
    "float spacing tolerance 4 ulp of 1.0 for uniform knots; limits must be exactly (0, 1)",
    "invariance compared exactly for Fraction knots, 1e-11 for floats",
    "np.random.seed(<generated integer>) is called before GeneratorKnotVector.random (the only RNG the library uses)",
]

G = lib.GeneratorKnotVector
CLS = {"int": int, "float": float, "Fraction": F}
ULP = F(1, 2 ** 50)


def structure_problem(kv, p, n):
    """Well-formed clamped vector with exactly degree p and npts n?"""
    L = list(kv)
    try:
        U = [oracle.frac(x) for x in L]
    except Exception:
        return f"non-numeric content {L}"
    if kv.degree != p or kv.npts != n:
        return f"degree/npts = {kv.degree}/{kv.npts}, requested {p}/{n}"
    why = oracle.wellformed(U, p)
    if why:
        return f"{L}: {why}"
    if len(U) != p + n + 1:
        return f"length {len(U)} != {p + n + 1}"
    return None


def sweep_one(args):
    """One (p, n, clsname) combination -> list of (clause, klass, message, case)."""
    p, n, cname = args
    cls = CLS[cname]
    fails = []

    def bad(clause, msg, gen_name):
        fails.append((clause, f"{gen_name};cls={cname}", msg, {"gen": gen_name, "p": p, "n": n, "cls": cname}))
    try:
        # integer
        kv = G.integer(p, n, cls)
        sp = structure_problem(kv, p, n)
        if sp:
            bad("structure", f"integer({p},{n},{cname}): {sp}", "integer")
        else:
            exp = [0] * p + list(range(n - p + 1)) + [n - p] * p
            if [oracle.frac(x) for x in kv] != [F(x) for x in exp]:
                bad("values", f"integer({p},{n},{cname}) = {list(kv)[:12]}..., expected knots 0..{n-p}", "integer")
            if any(type(x) is not cls for x in kv):
                bad("type", f"integer({p},{n},{cname}) has {type(kv[0]).__name__} knots", "integer")
        # uniform
        kv = G.uniform(p, n, cls)
        sp = structure_problem(kv, p, n)
        if sp:
            bad("structure", f"uniform({p},{n},{cname}): {sp}", "uniform")
        else:
            lim = kv.limits
            if not (lim[0] == 0 and lim[1] == 1):
                bad("limits", f"uniform({p},{n},{cname}).limits = {lim!r}, advertised [0, 1]", "uniform")
            m = n - p
            got = [oracle.frac(x) for x in kv]
            exp = [F(0)] * p + [F(i, m) for i in range(m + 1)] + [F(1)] * p
            if cls is F:
                if got != exp:
                    bad("values", f"uniform({p},{n},Fraction) != i/{m}", "uniform")
                if any(type(x) is not F for x in kv):
                    bad("type", f"uniform({p},{n},Fraction) has {type(kv[p+1]).__name__} knots", "uniform")
            else:
                dev = max(abs(a - b) for a, b in zip(got, exp))
                if dev > 4 * ULP:
                    bad("values", f"uniform({p},{n},{cname}): max |knot - i/{m}| = {float(dev):.3e}", "uniform")
        if n == p + 1:
            kv = G.bezier(p, cls)
            sp = structure_problem(kv, p, p + 1)
            if sp:
                bad("structure", f"bezier({p},{cname}): {sp}", "bezier")
            elif [oracle.frac(x) for x in kv] != [F(0)] * (p + 1) + [F(1)] * (p + 1):
                bad("values", f"bezier({p},{cname}) = {list(kv)}", "bezier")
            elif any(type(x) is not cls for x in kv):
                bad("type", f"bezier({p},{cname}) has {type(kv[0]).__name__} knots", "bezier")
    except Exception as exc:
        if not lib.from_library(exc):
            raise
        bad("unexpected-exception", f"({p},{n},{cname}): {type(exc).__name__} {exc} at {lib.lib_site(exc)}", "sweep")
    return fails


def EXTRA(tier, seed):
    nmax = 60 if tier == "quick" else 400
    combos = [(p, n, c) for p in range(0, 7) for n in range(p + 1, p + nmax + 1) for c in CLS]
    ctx = mp.get_context("fork")
    with ctx.Pool(NWORKERS) as pool:
        results = pool.map(sweep_one, combos, chunksize=16)
    failures = {}
    for fl in results:
        for clause, klass, msg, case in fl:
            sig = ("sweep", clause, klass)
            slot = failures.setdefault(sig, {"count": 0, "cases": []})
            slot["count"] += 1
            if len(slot["cases"]) < 3:
                slot["cases"].append({"case": codec.dumps(case), "message": msg})
    # invalid arguments must raise
    inv = 0
    for fn, a in ((G.integer, (2, 2)), (G.integer, (1, 0)), (G.uniform, (3, 3)), (G.uniform, (-1, 3)),
                  (G.bezier, (-1,)), (G.random, (2, 1)), (G.integer, (1.5, 4)), (G.uniform, (1, 3.0))):
        inv += 1
        try:
            r = fn(*a)
        except Exception:
            continue
        sig = ("sweep", "invalid-arguments-accepted", fn.__name__)
        slot = failures.setdefault(sig, {"count": 0, "cases": []})
        slot["count"] += 1
        slot["cases"].append({"case": codec.dumps({"gen": fn.__name__, "args": [str(x) for x in a]}),
                              "message": f"{fn.__name__}{a} returned {list(r)}"})
    nontriv = sum(1 for (p, n, c) in combos if n - p >= 3)
    return {"evaluations": len(combos) + inv, "distinct_nontrivial": nontriv, "exhaustive": True,
            "failures": failures,
            "samples": [{"facet": "sweep", "case": {"gen": "uniform", "p": 2, "n": 7, "cls": "float"}}],
            "summary": f"exhaustive sweep: {len(combos)} (p, n, cls) combinations, p<=6, n<=p+{nmax}",
            "coverage": {"sweep_combinations": len(combos), "nmax_offset": nmax}}


# the sweep facet is also registered as a (tiny) Hypothesis facet so that sweep replays work
@st.composite
def sweep_cases(draw):
    p = draw(st.integers(0, 6))
    return {"gen": draw(st.sampled_from(["integer", "uniform", "bezier"])), "p": p,
            "n": draw(st.integers(p + 1, p + 120)), "cls": draw(st.sampled_from(list(CLS)))}


def check_sweep(case, out):
    if "args" in case:
        return
    p, n, cname = case["p"], case["n"], case["cls"]
    out.nontrivial = n - p >= 3
    for clause, klass, msg, _ in sweep_one((p, n, cname)):
        out.fail(clause, klass, msg)


@st.composite
def random_cases(draw):
    p = draw(st.integers(0, 6))
    n = draw(st.integers(p + 1, p + 40))
    kind = draw(st.sampled_from(["random", "random", "weight"]))
    cname = draw(st.sampled_from(["float", "Fraction", "int", "mixed"]))
    m = n - p
    if cname == "float":
        w = st.builds(lambda a, b: a / 2 ** b, st.integers(1, 40), st.integers(0, 4))
    elif cname == "int":
        w = st.integers(1, 12)
    elif cname == "mixed":  # first weight an int, later ones Fractions / ints
        w = st.one_of(st.integers(1, 5), st.builds(lambda a, b: F(a, b), st.integers(1, 20), st.integers(2, 9)))
    else:
        w = st.builds(lambda a, b: F(a, b), st.integers(1, 20), st.integers(1, 9))
    weights = draw(st.lists(w, min_size=m, max_size=m))
    if cname == "mixed":
        weights[0] = draw(st.integers(1, 5))
        kind = "weight"
    return {"kind": kind, "p": p, "n": n, "cls": cname, "seed": draw(st.integers(0, 2 ** 32 - 1)),
            "weights": weights}


def check_random(case, out):
    p, n, cname = case["p"], case["n"], case["cls"]
    cls = CLS.get(cname)
    out.cls("kind=" + case["kind"], "cls=" + cname)
    out.nontrivial = n - p >= 3
    if case["kind"] == "random":
        np.random.seed(case["seed"])
        kv = G.random(p, n, cls)
        klass = f"random;cls={cname}"
        sp = structure_problem(kv, p, n)
        if sp:
            out.fail("structure", klass, f"random({p},{n},{cname}) seed {case['seed']}: {sp}")
            return
        U = [oracle.frac(x) for x in kv]
        if any(oracle.mult(U, z) != 1 for z in oracle.breaks(U)[1:-1]):
            out.fail("interior-not-simple", klass, f"random({p},{n},{cname}) seed {case['seed']}: {list(kv)}")
        lim = kv.limits
        if not (lim[0] == 0 and lim[1] == 1):
            out.fail("limits", klass, f"random({p},{n},{cname}) seed {case['seed']}: limits {lim!r}, advertised [0, 1]")
        if cls is F and any(type(x) is not F for x in kv):
            out.fail("type", klass, f"random({p},{n},Fraction): knot type {type(kv[p+1]).__name__}")
        return
    klass = f"weight;cls={cname}"
    w = list(case["weights"])
    kv = G.weight(p, w)
    sp = structure_problem(kv, p, n)
    if sp:
        out.fail("structure", klass, f"weight({p},{w}): {sp}")
        return
    U = [oracle.frac(x) for x in kv]
    bk = oracle.breaks(U)
    diffs = [b - a for a, b in zip(bk[:-1], bk[1:])]
    exp = [oracle.frac(x) for x in w]
    if cname == "float":
        ok = len(diffs) == len(exp) and all(abs(a - b) <= ULP * 64 * max(1, bk[-1]) for a, b in zip(diffs, exp))
    else:
        ok = diffs == exp
    if not ok or bk[0] != 0:
        out.fail("spacing", klass, f"weight({p},{w}) = {list(kv)}: knot spacing {diffs}")
    if cls is F and any(type(x) is not F for x in kv):
        out.fail("type", klass, f"weight({p}, Fractions): knot type {type(kv[0]).__name__}")


@st.composite
def affine_cases(draw):
    num = draw(st.sampled_from(["frac", "frac", "float"]))
    U, p = draw(gen.knotvectors(0, 4, 4))
    n = len(U) - p - 1
    if num == "float":
        a = draw(st.builds(lambda k: F(k, 8), st.integers(-40, 40)))
        s = draw(st.sampled_from([F(1, 2), F(2), F(4), F(1, 4), F(3), F(3, 2), F(5, 8)]))
    else:
        a = draw(gen.small_fracs())
        s = draw(st.builds(lambda x, y: F(x, y), st.integers(1, 12), st.integers(1, 7)))
    order = draw(st.sampled_from(["shift-scale", "scale-shift", "ops"]))
    land = draw(st.sampled_from([None, None, None, F(1, 10 ** 13), -F(1, 10 ** 15), F(1, 10 ** 20)]))
    if num == "frac" and land is not None:
        # the image of one knot lands a hair away from 0 (not on it): an exact knot is never "round-off of zero"
        z = draw(st.sampled_from(U))
        a = land - z if order == "shift-scale" else land - z * s
    return {"U": U, "p": p, "num": num, "a": a, "s": s, "P": draw(gen.ctrlpoints(n, draw(st.sampled_from([0, 2])))),
            "w": draw(st.one_of(st.none(), gen.pos_weights(n))),
            "order": order,
            "route": draw(st.sampled_from(["methods", "methods", "assign", "augmented"]))}


def check_affine(case, out):
    num = case["num"]
    exact = num == "frac"
    p = case["p"]
    Ulib = [lib.conv_knot(u, num) for u in case["U"]]
    U = [oracle.frac(u) for u in Ulib]
    a = lib.conv_knot(case["a"], num)
    s = lib.conv_knot(case["s"], num)
    fa, fs = oracle.frac(a), oracle.frac(s)
    bk = oracle.breaks(U)
    rep = any(oracle.mult(U, z) >= 2 for z in bk[1:-1])
    out.cls("num=" + num, "repeated-interior" if rep else "simple-or-bezier", "order=" + case["order"])
    out.nontrivial = rep or len(bk) >= 4
    klass = "exact" if exact else "float"
    tol = F(0) if exact else F(1, 10 ** 11)
    kv = lib.KnotVector(list(Ulib))

    def same_structure(k, where):
        L = [oracle.frac(x) for x in k]
        if k.degree != p or k.npts != len(U) - p - 1 or len(L) != len(U):
            out.fail("structure", klass, f"{where}: degree/npts {k.degree}/{k.npts} from {p}/{len(U)-p-1}")
            return None
        if [oracle.mult(L, z) for z in oracle.breaks(L)] != [oracle.mult(U, z) for z in bk]:
            out.fail("multiplicities", klass, f"{where}: {list(k)} vs {Ulib}")
            return None
        # ... and the mapped vector reports them itself (knots / mult / span agree with its element list)
        kn = list(k.knots)
        if [oracle.frac(z) for z in kn] != oracle.breaks(L):
            out.fail("multiplicities", klass, f"{where}: knots {kn} of {list(k)}")
            return None
        for z in kn:
            m = k.mult(z)
            if m != oracle.mult(L, oracle.frac(z)):
                out.fail("multiplicities", klass, f"{where}: mult({z}) = {m} on {list(k)}")
                return None
        return L

    def mapped(L, f, where):
        exp = [f(u) for u in U]
        if any(abs(x - y) > tol * max(1, abs(y)) for x, y in zip(L, exp)):
            out.fail("affine-map", klass, f"{where}: got {L}, expected {exp}")
            return False
        return True

    if case["order"] == "shift-scale":
        k2 = lib.KnotVector(list(Ulib)).shift(a).scale(s)
        f = lambda u: (u + fa) * fs  # noqa: E731
    elif case["order"] == "scale-shift":
        k2 = lib.KnotVector(list(Ulib)).scale(s).shift(a)
        f = lambda u: u * fs + fa  # noqa: E731
    else:
        k2 = (lib.KnotVector(list(Ulib)) * s) + a
        f = lambda u: u * fs + fa  # noqa: E731
    L2 = same_structure(k2, f"{case['order']}(a={a}, s={s})")
    if L2 is not None and mapped(L2, f, f"{case['order']}(a={a}, s={s}) on {Ulib}"):
        # invariance of the basis and of a curve under the reparametrisation
        f1, f2 = lib.Function(list(Ulib)), lib.Function(list(k2))
        wl = None
        if case["w"] is not None:
            wl = [lib.conv_val(x, num) for x in case["w"]]
            f1.weights = wl
            f2.weights = wl
        P = lib.conv_points(case["P"], num)
        c1 = lib.Curve(list(Ulib), P, wl)
        c2 = lib.Curve(list(k2), P, wl)
        us = gen.params_of(case["U"], 1)
        for j in sorted({0, p // 2, p}):
            for u in us:
                lu = lib.conv_knot(u, num)
                lv = list(k2)[0] if u == us[0] else list(k2)[-1] if u == us[-1] else f_lib(lu, a, s, case["order"])
                # knots must map to the mapped knots exactly: look them up
                if oracle.frac(lu) in bk:
                    lv = list(k2)[U.index(oracle.frac(lu))]
                v1 = f1[:, j](lu)
                v2 = f2[:, j](lv)
                d = max(abs(oracle.frac(x) - oracle.frac(y)) for x, y in zip(v1, v2))
                if d > tol * 100:
                    out.fail("basis-invariance", klass,
                             f"N_i,{j} over {list(k2)} at {lv} differs from N_i,{j} over {Ulib} at {lu} by {float(d):.3e}")
                    break
        scale_p = max([abs(oracle.frac(x)) for x in lib.walk_numbers(P)] + [F(1)])
        for u in us:
            lu = lib.conv_knot(u, num)
            lv = f_lib(lu, a, s, case["order"])
            if oracle.frac(lu) in bk:
                lv = list(k2)[U.index(oracle.frac(lu))]
            x1, x2 = lib.point_tuple(c1(lu)), lib.point_tuple(c2(lv))
            d = max(abs(x - y) for x, y in zip(x1, x2))
            if d > tol * 100 * scale_p:
                out.fail("curve-invariance", klass, f"curve over {list(k2)} at {lv} differs from curve over {Ulib} at {lu} by {float(d):.3e}")
                break
        # the same reparametrisation applied in place to the knot vector of objects that were already evaluated:
        # whatever they remember about the old parametrisation must not survive
        for name, obj, fresh in (("Function", f1, f2), ("Curve", c1, c2)):
            try:
                obj(lib.conv_knot(us[0], num))  # used through its plain call form before the change
                obj([lib.conv_knot(us[0], num), lib.conv_knot(us[-1], num)])
                live = obj.knotvector
                route = case.get("route", "methods")
                if route == "assign":
                    obj.knotvector = lib.KnotVector(list(k2))  # the mapped vector through the property setter
                elif route == "augmented":
                    # augmented assignment on the property: in-place operator, then the setter
                    if case["order"] == "shift-scale":
                        obj.knotvector += a
                        obj.knotvector *= s
                    else:
                        obj.knotvector *= s
                        obj.knotvector += a
                elif case["order"] == "shift-scale":
                    live.shift(a).scale(s)
                else:
                    live.scale(s).shift(a)
            except Exception as exc:
                if not lib.from_library(exc):
                    raise
                continue
            if [oracle.frac(x) for x in obj.knotvector] != L2:
                out.cls(name + ".knotvector-not-live")
                continue
            out.cls(name + "-reparametrised-in-place", "route=" + case.get("route", "methods"))
            for u in us:
                lu = lib.conv_knot(u, num)
                lv = f_lib(lu, a, s, case["order"])
                if oracle.frac(lu) in bk:
                    lv = list(k2)[U.index(oracle.frac(lu))]
                try:
                    v1, v2 = obj(lv), fresh(lv)
                except Exception as exc:
                    if not lib.from_library(exc):
                        raise
                    out.fail("in-place-reparametrisation", klass, f"{name} evaluated before {case['order']}(a={a}, s={s}) "
                             f"of its own knot vector: evaluation at {lv} raised {type(exc).__name__}: {exc}")
                    break
                x1 = [oracle.frac(x) for x in lib.walk_numbers(v1)]
                x2 = [oracle.frac(x) for x in lib.walk_numbers(v2)]
                d = max([abs(x - y) for x, y in zip(x1, x2)] + [F(0) if len(x1) == len(x2) else F(1)])
                if d > tol * 100 * scale_p:
                    out.fail("in-place-reparametrisation", klass,
                             f"{name} evaluated, then its knot vector {Ulib} mapped in place by {case['order']}(a={a}, s={s}): "
                             f"value at {lv} differs from a fresh {name} over the mapped vector by {float(d):.3e}")
                    break
    # normalize
    k3 = lib.KnotVector(list(Ulib))
    r = k3.normalize()
    if r is not k3:
        out.fail("identity", klass, "normalize() did not return the same instance")
    L3 = same_structure(k3, "normalize()")
    if L3 is not None:
        lim = k3.limits
        if not (lim[0] == 0 and lim[1] == 1):
            out.fail("normalize-limits", klass, f"normalize() of {Ulib}: limits {lim!r}, advertised exactly [0, 1]")
        ln = U[-1] - U[0]
        tol3 = F(0) if exact else 4 * ULP
        exp = [(u - U[0]) / ln for u in U]
        if any(abs(x - y) > tol3 for x, y in zip(L3, exp)):
            out.fail("normalize-values", klass, f"normalize() of {Ulib}: {list(k3)}")
    if [oracle.frac(x) for x in kv] != U:
        out.fail("operand-modified", klass, "a KnotVector built from the same list changed")
    # invalid scale
    for badv in (0, -1):
        k4 = lib.KnotVector(list(Ulib))
        try:
            k4.scale(badv)
            out.fail("non-positive-scale-accepted", klass, f"scale({badv}) accepted: {list(k4)}")
        except Exception:
            if [oracle.frac(x) for x in k4] != U:
                out.fail("atomicity", klass, f"scale({badv}) raised but changed the vector")


def f_lib(lu, a, s, order):
    if order == "shift-scale":
        return (lu + a) * s
    return lu * s + a


# ------------------------------------------------------------------ operator spellings of the same affine map
SPELLINGS = ["mul-add", "rmul-add", "div-add", "mul-sub", "div-sub", "imul-iadd", "idiv-isub", "imul-isub", "idiv-iadd"]


@st.composite
def operator_cases(draw):
    """The affine map u -> s*u + a written with every operator the class offers, in every number class."""
    num = draw(st.sampled_from(["frac", "int", "int", "float"]))
    U, p = draw(gen.knotvectors(0, 3, 3))
    if num == "int":
        # integer knots: the same vector on the integer grid of its denominators
        den = 1
        for u in U:
            den = den * u.denominator // math.gcd(den, u.denominator)
        U = [u * den for u in U]
    if num == "frac":
        a = draw(gen.small_fracs())
        s = draw(st.builds(lambda x, y: F(x, y), st.integers(1, 12), st.integers(1, 7)))
    elif num == "int":
        a = F(draw(st.integers(-9, 9)))
        s = draw(st.sampled_from([F(2), F(3), F(7), F(1, 2), F(1, 3), F(1, 4), F(1, 7)]))
    else:
        a = draw(st.builds(lambda k: F(k, 8), st.integers(-40, 40)))
        s = draw(st.sampled_from([F(1, 2), F(2), F(4), F(1, 4), F(8), F(1, 8)]))  # powers of two: exact in floats
    return {"U": U, "p": p, "num": num, "a": a, "s": s, "spelling": draw(st.sampled_from(SPELLINGS)),
            "sclass": draw(st.sampled_from(["native", "native", "frac"]))}


def check_operators(case, out):
    num, p = case["num"], case["p"]
    fa, fs = case["a"], case["s"]
    Ulib = [lib.conv_knot(u, num) for u in case["U"]]
    U = [oracle.frac(u) for u in Ulib]  # (the float profile starts from the rounded knots)

    def number(x):
        # an operand in the number class of the profile: Python int when integral in the int profile
        if case["sclass"] == "frac" and num != "float":
            return F(x)
        if num == "int":
            return int(x) if F(x).denominator == 1 else F(x)
        return lib.conv_knot(x, num)
    sp = case["spelling"]
    mulpart, addpart = sp.split("-")
    usediv = mulpart.endswith("div")
    factor = number(1 / fs) if usediv else number(fs)
    usesub = addpart.endswith("sub")
    shift = number(-fa) if usesub else number(fa)
    out.cls("num=" + num, "spelling=" + sp, "factor-class=" + type(factor).__name__, "shift-class=" + type(shift).__name__)
    bk = oracle.breaks(U)
    out.nontrivial = len(bk) >= 3
    klass = f"{num};{sp}"
    k0 = lib.KnotVector(list(Ulib))
    try:
        if mulpart == "mul":
            k1 = k0 * factor
        elif mulpart == "rmul":
            k1 = factor * k0
        elif mulpart == "div":
            k1 = k0 / factor
        else:
            k1 = lib.KnotVector(list(Ulib))
            if mulpart == "imul":
                k1 *= factor
            else:
                k1 /= factor
        if addpart == "add":
            k2 = k1 + shift
        elif addpart == "sub":
            k2 = k1 - shift
        else:
            k2 = k1
            if addpart == "iadd":
                k2 += shift
            else:
                k2 -= shift
    except Exception as exc:
        if not lib.from_library(exc):
            raise
        out.fail("unexpected-exception", klass,
                 f"{sp} with factor {factor!r} and shift {shift!r} on {Ulib}: {type(exc).__name__}: {exc} at {lib.lib_site(exc)}")
        return
    if not isinstance(k2, lib.KnotVector):
        out.fail("structure", klass, f"{sp}: result is a {type(k2).__name__}")
        return
    L = [oracle.frac(x) for x in k2]
    exp = [u * fs + fa for u in U]
    if k2.degree != p or len(L) != len(U) or [oracle.mult(L, z) for z in oracle.breaks(L)] != [oracle.mult(U, z) for z in bk]:
        out.fail("multiplicities", klass, f"{sp} with factor {factor!r}, shift {shift!r} on {Ulib}: {list(k2)} (degree {k2.degree})")
        return
    inexact = any(isinstance(x, (float, np.floating)) for x in k2)
    tol = F(1, 10 ** 11) if inexact else F(0)
    if any(abs(x - y) > tol * max(1, abs(y)) for x, y in zip(L, exp)):
        out.fail("affine-map", klass, f"{sp} with factor {factor!r}, shift {shift!r} on {Ulib}: got {list(k2)}, expected {exp}")
        return
    if num == "frac" and inexact:
        out.fail("type", klass, f"{sp} with Fraction operands on Fraction knots returned floats: {list(k2)}")
    if [oracle.frac(x) for x in k0] != U:
        out.fail("operand-modified", klass, f"{sp}: the left operand changed to {list(k0)}")


FACETS = [
    Facet("sweep", lambda tier: sweep_cases(), check_sweep, quick=300, thorough=3000,
          rule="sampled (p, n, cls) beyond the exhaustive range (n up to p+120); also the replay entry for sweep findings"),
    Facet("random-weight", lambda tier: random_cases(), check_random, quick=1500, thorough=30000,
          rule="random() under generated numpy seeds; weight() with generated weights"),
    Facet("affine", lambda tier: affine_cases(), check_affine, quick=800, thorough=15000,
          rule="shift/scale/normalize and reparametrisation invariance"),
    Facet("operators", lambda tier: operator_cases(), check_operators, quick=1200, thorough=15000,
          rule="the map u -> s*u + a spelt with * / + - and their in-place forms (also s * U), on Fraction, Python-int "
               "and float knot vectors with operands of the matching or of the Fraction class: same multiplicities, "
               "every knot mapped (exactly unless the result holds floats); non-trivial: an interior knot"),
]
