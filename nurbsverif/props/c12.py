"""C12 - fit_points / fit_function solve the discrete least-squares problem exactly."""
from fractions import Fraction as F

import numpy as np
from hypothesis import strategies as st

from .. import gen, lib, oracle
from ..oracle import State
from ..runner import Facet

RULE = ("knot vectors of degree 0..4 (non-uniform, repeated knots), positive weights in ~40%, m in npts..npts+6 nodes "
        "built so that every basis function has a node in its support (Schoenberg-Whitney) plus extra nodes (one time in three some nodes repeated: several measurements at one parameter), full "
        "column rank verified exactly; data: arbitrary rationals (noisy), or samples of a generated curve of the same "
        "space; default nodes when admissible; fit_function with a generated in-space function; too few points. "
        "Non-trivial: m > npts with a non-zero residual, or a repeated interior knot")
ASSUMPTIONS = [
    "collocation matrix B[k][i] = R_i(z_k) from the reference basis (oracle.basis_row); normal equations checked exactly",
    "rank-deficient node sets are excluded (counted): the statement requires admissible / unisolvent nodes",
    "float profile: |B^T (BQ - Z)| <= 1e-8 * scale",
]


@st.composite
def node_sets(draw, U, p, extra_max=6):
    n = len(U) - p - 1
    nodes = []
    bk = gen.breaks_of(U)
    fr = st.sampled_from([F(1, 2), F(1, 3), F(2, 3), F(1, 5), F(4, 5), F(3, 7)])
    prev = None
    for i in range(n):
        # Schoenberg-Whitney by construction: strictly increasing nodes, node i strictly inside supp(N_i)
        lo = U[i] if prev is None else max(U[i], prev)
        hi = U[i + p + 1]
        z = lo + (hi - lo) * draw(fr)
        nodes.append(z)
        prev = z
    extra = draw(st.integers(0, extra_max))
    for _ in range(extra):
        a, b = draw(st.sampled_from(list(zip(bk[:-1], bk[1:]))))
        kind = draw(st.integers(0, 5))
        if kind == 0:
            nodes.append(a)
        elif kind == 1:
            nodes.append(bk[-1])
        else:
            nodes.append(a + (b - a) * draw(fr) * draw(st.sampled_from([F(1), F(1, 2), F(9, 10)])))
    nodes = sorted(set(nodes))
    # several measurements at one parameter value are ordinary least-squares data: repeated nodes, different data
    if draw(st.integers(0, 2)) == 0:
        for _ in range(draw(st.integers(1, 3))):
            nodes.append(draw(st.sampled_from(nodes)))
    return sorted(nodes)


@st.composite
def cases(draw, nums=("frac",), mode=None):
    U, p = draw(gen.knotvectors(0, 4, 3))
    n = len(U) - p - 1
    w = draw(gen.pos_weights(n)) if draw(st.integers(0, 4)) < 2 else None
    dim = draw(st.sampled_from([0, 0, 2]))
    modes = ["noisy", "noisy", "inspace", "default-nodes", "too-few"] if "frac" in nums else ["noisy", "noisy", "inspace", "too-few"]
    mode = mode or draw(st.sampled_from(modes))
    nodes = draw(node_sets(U, p))
    m = len(nodes)
    if mode == "default-nodes":
        m = draw(st.integers(n, n + 6))
    if mode == "too-few":
        m = draw(st.integers(0, max(n - 1, 0)))
    Z = draw(gen.ctrlpoints(max(m, 1), dim))[:m]
    Q = draw(gen.ctrlpoints(n, dim))
    if "frac" in nums:
        # numeric regimes (exact profile): least squares is linear in the data, whatever their magnitude
        sc = draw(st.sampled_from([F(1)] * 6 + [F(10 ** 8), F(1, 10 ** 8), F(1, 10 ** 11)]))
        if sc != 1:
            mul = (lambda x: x * sc) if dim == 0 else (lambda x: [c * sc for c in x])
            Z, Q = [mul(z) for z in Z], [mul(q) for q in Q]
    if draw(st.booleans()):
        nodes = draw(st.permutations(nodes))  # the statement does not ask for sorted nodes
    zform = draw(st.sampled_from(["frac", "frac", "int", "npint"])) if "frac" in nums and mode in ("noisy", "default-nodes") else "frac"
    if zform != "frac":
        # all-integer data (Python ints or an int64 array): the fitted control points are still rational numbers
        rnd = (lambda x: F(int(x))) if dim == 0 else (lambda x: [F(int(c)) for c in x])
        Z = [rnd(z) for z in Z]
    return {"U": U, "p": p, "w": w, "nodes": list(nodes), "Z": Z, "Q": Q, "mode": mode, "dim": dim, "zform": zform,
            "decoy": draw(st.integers(0, 2)) == 0,
            "num": draw(st.sampled_from(list(nums)))}


def to_lib_points(Z, dim, num, zform="frac"):
    if zform in ("int", "npint") and Z:
        ints = [int(z) for z in Z] if dim == 0 else [[int(c) for c in z] for z in Z]
        return ints if zform == "int" else np.array(ints, dtype="int64")
    if dim == 0:
        return [lib.conv_val(z, num) for z in Z]
    return lib.conv_points([list(z) for z in Z], num) if Z else []


def check(case, out):
    num = case["num"]
    exact = lib.is_exact(num)
    p = case["p"]
    Ulib = [lib.conv_knot(u, num) for u in case["U"]]
    U = [oracle.frac(u) for u in Ulib]
    n = len(U) - p - 1
    wl = None if case["w"] is None else [lib.conv_val(x, num) for x in case["w"]]
    w = None if wl is None else [oracle.frac(x) for x in wl]
    dim = case["dim"]
    mode = case["mode"]
    kind = ("rational" if w is not None else "polynomial") + (";exact" if exact else ";float")
    bk = oracle.breaks(U)
    rep = any(oracle.mult(U, z) >= 2 for z in bk[1:-1])
    out.cls(kind, "mode=" + mode, "repeated-knot" if rep else "simple-or-bezier", "vector" if dim else "scalar",
            "nodes-sorted" if list(case["nodes"]) == sorted(case["nodes"]) else "nodes-unsorted",
            "repeated-node" if len(set(case["nodes"])) < len(case["nodes"]) else "distinct-nodes")
    curve = lib.Curve(Ulib)
    if wl is not None:
        curve.weights = wl
    if mode == "too-few":
        Z = to_lib_points(case["Z"], dim, num)
        out.nontrivial = n >= 2
        try:
            curve.fit_points(Z, None if not case["nodes"] else [lib.conv_knot(z, num) for z in case["nodes"]][:len(Z)])
            out.fail("too-few-points-accepted", kind, f"fit_points with {len(Z)} points on npts={n} accepted: {curve.ctrlpoints}")
        except Exception as exc:
            if not (lib.from_library(exc) or isinstance(exc, (ValueError, AssertionError, TypeError))):
                raise
            if curve.ctrlpoints is not None:
                out.fail("atomicity", kind, "rejected fit_points set control points")
        return
    if mode == "default-nodes":
        m = len(case["Z"])
        if exact:
            lnodes = [U[0] + (U[-1] - U[0]) * F(k, m - 1) for k in range(m)] if m > 1 else None
        else:
            lnodes = None
        if lnodes is None:
            out.exclude("default-nodes-not-predictable")
            return
        nodes = lnodes
        call_nodes = None
    else:
        lnodes = [lib.conv_knot(z, num) for z in case["nodes"]]
        nodes = [oracle.frac(z) for z in lnodes]
        call_nodes = lnodes
    m = len(nodes)
    if not exact:
        srt = sorted(set(nodes))  # a repeated node costs no conditioning; cond(B) is checked below
        gaps = [b - a for a, b in zip(srt[:-1], srt[1:])]
        if gaps and min(gaps) < (U[-1] - U[0]) / 100:
            out.exclude("float-profile:clustered-nodes(ill-conditioned)")
            return
    B = [oracle.basis_row(U, p, p, z, w) for z in nodes]
    if m < n or oracle.rank(B) < n:
        out.exclude("rank-deficient-nodes")
        return
    if not exact:
        # "well-conditioned inputs": the library solves the normal equations, whose condition number is cond(B)^2
        condB = float(np.linalg.cond(np.array([[float(x) for x in row] for row in B])))
        if not condB < 1e4:
            out.exclude("float-profile:ill-conditioned(cond(B) >= 1e4)")
            return
    if mode == "inspace":
        gen_state = State(U, p, [tuple(oracle.frac(lib.conv_val(x, num)) for x in (q if dim else [q])) for q in case["Q"]],
                          w, dim == 0)
        Zf = [oracle.ceval(gen_state, z) for z in nodes]
        Zcase = [z[0] for z in Zf] if dim == 0 else [list(z) for z in Zf]
        Z = to_lib_points(Zcase, dim, num) if exact else (
            [float(z[0]) for z in Zf] if dim == 0 else np.array([[float(x) for x in z] for z in Zf]))
        Zf = [tuple(oracle.frac(x) for x in lib.point_tuple(z)) for z in Z]
    else:
        Z = to_lib_points(case["Z"][:m] if mode != "default-nodes" else case["Z"], dim, num, case.get("zform", "frac"))
        if case.get("zform", "frac") != "frac":
            out.cls("data=" + case["zform"])
        if len(Z) != m:
            out.exclude("not-enough-data")
            return
        Zf = [lib.point_tuple(z) for z in Z]
    zsnap = [tuple(lib.point_tuple(z)) for z in Z]
    if case.get("decoy") and call_nodes is not None:
        # history: another curve on the same knot vector and nodes but other weights is fitted first
        out.cls("decoy-fit-first")
        decoy = lib.Curve(list(Ulib))
        if wl is None:
            decoy.weights = [lib.conv_val(F(1 + (i % 3), 1 + (i % 2)), num) for i in range(n)]
        try:
            decoy.fit_points(Z, call_nodes)
        except Exception as exc0:
            if not lib.from_library(exc0):
                raise
    try:
        curve.fit_points(Z, call_nodes)
    except ZeroDivisionError as exc:
        out.fail("admissible-nodes-rejected", kind, f"fit_points on U={U} w={w} nodes={nodes} (rank {n}): ZeroDivisionError {exc}")
        return
    if [tuple(lib.point_tuple(z)) for z in Z] != zsnap:
        out.fail("operand-modified", kind, "fit_points changed the data points")
    Qs = curve.ctrlpoints
    if Qs is None or len(Qs) != n:
        out.fail("npts", kind, f"fit_points left {None if Qs is None else len(Qs)} control points for npts={n}")
        return
    Q = [lib.point_tuple(q) for q in Qs]
    d = len(Zf[0])
    resid = [[sum(B[k][i] * Q[i][c] for i in range(n)) - Zf[k][c] for c in range(d)] for k in range(m)]
    nonzero = any(x != 0 for row in resid for x in row)
    out.nontrivial = (m > n and nonzero) or rep
    klass = kind + (";square" if m == n else ";overdetermined") + (";default-nodes" if call_nodes is None else "")
    scale = max([abs(x) for z in Zf for x in z] + [F(1)])
    if not exact and max(abs(x) for q in Q for x in q) > 1000 * scale:
        # control points three orders above the data: the float solve is ill-conditioned, outside the
        # "well-conditioned inputs" the float clause speaks about
        out.exclude("float-profile:ill-conditioned(|Q| >> |Z|)")
        return
    tol = F(0) if exact else F(1, 10 ** 8) * scale
    for i in range(n):
        for c in range(d):
            g = sum(B[k][i] * resid[k][c] for k in range(m))
            if abs(g) > tol:
                out.fail("normal-equations", klass,
                         f"U={U} w={w} nodes={nodes} Z={Zf}: B^T(BQ-Z)[{i}] = {g if exact else float(g)} != 0; Q={Q}")
                return
    if m == n and nonzero and (exact or max(abs(x) for row in resid for x in row) > tol * 10):
        out.fail("not-interpolating", klass, f"U={U} nodes={nodes}: residual {resid}")
    if mode == "inspace":
        want = [tuple(oracle.frac(lib.conv_val(x, num)) for x in (q if dim else [q])) for q in case["Q"]]
        if exact and Q != want:
            out.fail("in-space-not-reproduced", klass, f"U={U} w={w} nodes={nodes}: got {Q}, generating points {want}")
    if exact:
        bad = None
        for q in Q:
            pass


@st.composite
def function_cases(draw):
    if draw(st.integers(0, 3)) == 0:
        # many spans, degrees up to 4, pieces isolated by full-multiplicity knots: the default sampling of
        # fit_function has to be unisolvent piece by piece
        U, p = draw(gen.knotvectors(2, 4, 7))
    else:
        U, p = draw(gen.knotvectors(0, 3, 3))
    n = len(U) - p - 1
    return {"U": U, "p": p, "w": draw(gen.pos_weights(n)) if draw(st.integers(0, 4)) < 2 else None,
            "Q": draw(gen.ctrlpoints(n, draw(st.sampled_from([0, 0, 2])))),
            "scale": draw(st.sampled_from([F(1)] * 6 + [F(10 ** 8), F(1, 10 ** 8), F(1, 10 ** 11)])),
            "decoy": draw(st.integers(0, 2)) == 0,
            "num": draw(st.sampled_from(["frac", "frac", "float"]))}


def check_function(case, out):
    num = case["num"]
    exact = num == "frac"
    p = case["p"]
    Ulib = [lib.conv_knot(u, num) for u in case["U"]]
    U = [oracle.frac(u) for u in Ulib]
    n = len(U) - p - 1
    wl = None if case["w"] is None else [lib.conv_val(x, num) for x in case["w"]]
    w = None if wl is None else [oracle.frac(x) for x in wl]
    scalar = not isinstance(case["Q"][0], (list, tuple))
    Qf = [tuple(oracle.frac(lib.conv_val(x, num)) for x in ([q] if scalar else q)) for q in case["Q"]]
    if exact and case.get("scale", 1) != 1:
        Qf = [tuple(x * case["scale"] for x in q) for q in Qf]
        out.cls("scaled-data")
    target = State(U, p, Qf, w, scalar)
    kind = ("rational" if w is not None else "polynomial") + (";exact" if exact else ";float")
    bk = oracle.breaks(U)
    out.cls(kind, "scalar" if scalar else "vector")
    out.nontrivial = len(bk) > 2
    curve = lib.Curve(Ulib)
    if wl is not None:
        curve.weights = wl

    def f(u):
        v = oracle.ceval(target, oracle.frac(u))
        if exact:
            return v[0] if scalar else np.array(list(v), dtype=object)
        return float(v[0]) if scalar else np.array([float(x) for x in v])
    if case.get("decoy"):
        out.cls("decoy-fit-first")
        decoy = lib.Curve(list(Ulib))
        if wl is None:
            decoy.weights = [lib.conv_val(F(1 + (i % 3), 1 + (i % 2)), num) for i in range(n)]
        try:
            decoy.fit_function(f)
        except Exception as exc0:
            if not lib.from_library(exc0):
                raise
    try:
        curve.fit_function(f)
    except ZeroDivisionError as exc:
        out.fail("default-nodes-singular", kind, f"fit_function on U={U} w={w}: ZeroDivisionError {exc}")
        return
    got = lib.state_of(curve)
    if got.U != U or len(got.P) != n:
        out.fail("structure", kind, f"after fit_function: U={got.U}, {len(got.P)} points")
        return
    if exact:
        wit = oracle.same_function(target, got)
        if wit is not None:
            out.fail("in-space-function-not-reproduced", kind,
                     f"fit_function of a member of the space U={U} w={w} P={Qf}: at u={wit[0]} f={wit[1]}, curve={wit[2]}")
    else:
        dev, where = oracle.max_deviation(target, got)
        tol = F(1, 10 ** 8) * max([abs(x) for q in Qf for x in q] + [F(1)])
        if dev > tol:
            out.fail("in-space-function-not-reproduced", kind, f"U={U}: deviation {float(dev):.3e} at {float(where)}")


FACETS = [
    Facet("points", lambda tier: cases(("frac",)), check, quick=1200, thorough=8000, rule="exact normal equations"),
    Facet("points-float", lambda tier: cases(("float", "npfloat")), check, quick=500, thorough=3000,
          rule="float data, 1e-8"),
    Facet("function", lambda tier: function_cases(), check_function, quick=600, thorough=4000,
          rule="fit_function reproduces members of the space"),
]
