"""C01 - curve evaluation equals the B-spline / NURBS definition."""
from fractions import Fraction as F

import numpy as np
from hypothesis import strategies as st

from .. import gen, lib, oracle
from ..runner import Facet

RULE = ("curves generated constructively (degree 0..5, <=5 distinct interior knots with "
        "multiplicities 1..p+1, non-uniform rational positions, scalar/vector points, "
        "positive weights in ~50%) evaluated at every knot, both ends, 3 interior points per "
        "span (scalar call and one sequence call), and outside the interval; a case is "
        "non-trivial when the knot vector has an interior knot (so a knot or umax inside a "
        "multi-span vector is evaluated); distinct = distinct case digest")
ASSUMPTIONS = [
    "oracle: own Cox-de Boor recursion in exact Fraction arithmetic (nurbsverif/oracle.py)",
    "float profile: |value-reference| <= 1e-9*max(1,max|P|) on spans >= (b-a)/60, degree <= 5",
    "NaN/inf parameters, knots closer than 1e-3 and non-positive weights are outside the domain",
]


@st.composite
def cases(draw, nums, pmax=5, kmax=5):
    if draw(st.integers(0, 7)) == 0:
        kmax = 9  # many spans
    c = draw(gen.curves(0, pmax, kmax, nums=nums, regimes="all"))
    # the weight function equal to exactly 1 at one evaluated parameter (weights not all 1)
    c = dict(c, w=draw(gen.unit_weight_function(c["U"], c["w"], 3)))
    outside = draw(gen.outside_params(c["U"]))
    seqtype = draw(st.sampled_from(["tuple", "list", "ndarray", "gen", "iter", "map"]))
    return {"curve": c, "outside": outside, "seqtype": seqtype, "order": draw(st.sampled_from(lib.SEQ_ORDERS)),
            "via_eval": draw(st.integers(0, 3)) == 0, "history": draw(st.sampled_from(lib.HISTORY_MODES)),
            "intparam": draw(st.booleans()), "twin_first": draw(st.integers(0, 2)) == 0,
            "repeats": draw(st.sampled_from([None, None, None, "mirror", "some"]))}


def tol_of(st_):
    m = max([abs(c) for pt in st_.P for c in pt] + [F(1)])
    return F(1, 10 ** 9) * m


def value_tuple(v):
    return lib.point_tuple(v)


def check(case, out):
    c = case["curve"]
    num = c["num"]
    exact = lib.is_exact(num)
    ref = lib.case_state(c)
    if exact and case.get("twin_first"):
        # history: evaluate a float twin of the same knot vector first (a value-keyed cache would leak its floats)
        twin = lib.build_curve(dict(c, num="float"))
        twin(float(ref.U[0]))
        twin([float(ref.U[0]), float(ref.U[-1])])
        try:  # exact parameters on the float twin as well (an end like 4/3 lies outside its rounded float: refused)
            twin([ref.U[0], (ref.U[0] + ref.U[-1]) / 2, ref.U[-1]])
        except ValueError:
            pass
        out.cls("float-twin-first")
    curve = lib.build_curve_history(c, case.get("history"))
    if case.get("history"):
        # object history: constructed with other data, evaluated, then re-assigned through the public setters
        out.cls("history=" + case["history"])
        if lib.state_of(curve).key() != ref.key():
            out.exclude("setter-history-did-not-reach-the-state (C15 territory)")
            return
    U = ref.U
    bk = oracle.breaks(U)
    interior = bk[1:-1]
    out.cls("num=" + num, f"p={ref.p}" if ref.p in (0, 1) else "p>=2")
    if interior:
        out.nontrivial = True
        out.cls("interior-knot")
        if any(oracle.mult(U, z) >= 2 for z in interior):
            out.cls("repeated-interior-knot")
        if any(oracle.mult(U, z) == ref.p + 1 for z in interior):
            out.cls("mult=p+1")
        if F(0) in interior:
            out.cls("knot==0")
    if ref.w is not None:
        out.cls("rational")
    out.cls("scalar-points" if ref.scalar else "vector-points")
    klass = ("rational" if ref.w is not None else "polynomial") + (
        ";exact" if exact else ";float")
    tol = tol_of(ref)

    params = gen.params_of(c["U"], 3, gen.NEAR)
    if exact:
        tiny = F(1, 10 ** 30)
        params = sorted(params + [z - tiny for z in interior] + [z + tiny for z in interior]
                        + [bk[0] + tiny, bk[-1] - tiny])
        out.cls("knot+-1e-30")
    lparams = []
    for u in params:
        if exact:
            lp = F(u)
            if case["intparam"] and lp.denominator == 1:
                lp = int(lp)
        else:
            lp = lib.conv_param(u, num)
        lparams.append(lp)
    refvals = [oracle.ceval(ref, oracle.frac(lp)) for lp in lparams]

    def compare(val, rv, where):
        vt = value_tuple(val)
        if ref.scalar and not lib.is_scalar_point(val):
            out.fail("shape", klass, f"{where}: scalar curve returned a sequence {val!r}")
            return
        if len(vt) != len(rv):
            out.fail("shape", klass, f"{where}: got {len(vt)} components, expected {len(rv)}")
            return
        if exact:
            bad = lib.inexact_leaf(val)
            if bad is not None:
                out.fail("exact-type", klass, f"{where}: value contains {type(bad).__name__} {bad!r}")
                return
            if vt != rv:
                out.fail("value", klass, f"{where}: got {vt}, definition gives {rv}")
        else:
            dev = max(abs(a - b) for a, b in zip(vt, rv))
            if dev > tol:
                out.fail("value", klass, f"{where}: |got-ref|={float(dev):.3e} > {float(tol):.1e}")

    # (a) scalar calls
    for lp, rv in zip(lparams, refvals):
        try:
            val = curve(lp)
        except ValueError as exc:
            out.fail("raises-inside", klass, f"u={lp}: ValueError {exc} for a parameter inside the interval")
            continue
        compare(val, rv, f"u={lp}")
    # (b) one sequence call
    # (the nodes in any order and in any of the accepted sequence forms, one-shot iterables included)
    order = case.get("order", "given")
    sparams, srefs = lib.reorder(lparams, order), lib.reorder(refvals, order)
    if case.get("repeats"):
        # one point per node also when a node occurs several times in the sequence
        out.cls("repeated-nodes-in-sequence")
        sparams, srefs = lib.with_repeats(sparams, case["repeats"]), lib.with_repeats(srefs, case["repeats"])
    if case["seqtype"] == "ndarray":
        seq = np.array(sparams, dtype=object if exact else "float64")
    else:
        seq = lib.seq_form(sparams, case["seqtype"])
    out.cls("seq=" + case["seqtype"], "order=" + order)
    sub = f";seq={case['seqtype']}" if case["seqtype"] in ("gen", "iter", "map") else ""
    sub += ";unsorted" if order != "given" else ""
    try:
        vals = curve.eval(seq) if case.get("via_eval") else curve(seq)
    except ValueError as exc:
        out.fail("raises-inside", klass + sub, f"sequence call ({case['seqtype']}, {order}) raised ValueError {exc}")
        vals = None
    if vals is not None:
        try:
            nvals = len(vals)
        except TypeError:
            nvals = -1
        if nvals != len(sparams):
            out.fail("shape", klass + sub, f"sequence ({case['seqtype']}) of {len(sparams)} nodes gave {nvals} points")
        else:
            for lp, val, rv in zip(sparams, vals, srefs):
                compare(val, rv, f"seq({case['seqtype']}, {order}) u={lp}")
    # (b') a sequence of exactly one node is still a sequence: one point per node
    k1 = len(lparams) // 2
    for form in ("list", "tuple", "ndarray"):
        one = [lparams[k1]] if form == "list" else (lparams[k1],)
        if form == "ndarray":
            one = np.array([lparams[k1]], dtype=object if exact else "float64")
        try:
            v1 = curve(one)
        except ValueError as exc:
            out.fail("raises-inside", klass, f"one-element {form} raised ValueError {exc}")
            continue
        try:
            n1 = len(v1)
        except TypeError:
            n1 = -1
        if n1 != 1 or (not ref.scalar and lib.is_scalar_point(v1[0])):
            out.fail("shape", klass + ";one-element-sequence", f"curve({form} of one node {lparams[k1]}) returned {v1!r}: not one point per node")
        else:
            compare(v1[0], refvals[k1], f"one-element {form} u={lparams[k1]}")
    # (b'') the number of nodes is the caller's business: sequences whose length coincides with a size of the
    # curve (number of control points, degree + 1, number of knots) are sequences like any other
    for want in sorted({ref.n, ref.p + 1, len(ref.U)}):
        if want < 2:
            continue
        idx = [(3 * i + 1) % len(lparams) for i in range(want)]
        sub = [lparams[i] for i in idx]
        try:
            vsub = curve(list(sub) if exact else np.array(sub, dtype="float64"))
            nsub = len(vsub)
        except ValueError as exc:
            out.fail("raises-inside", klass, f"sequence of {want} nodes raised ValueError {exc}")
            continue
        except TypeError:
            nsub = -1
        if nsub != want:
            out.fail("shape", klass, f"sequence of {want} nodes gave {nsub} points")
            continue
        for i, val in zip(idx, vsub):
            compare(val, refvals[i], f"sequence of {want} nodes (npts={ref.n}, degree={ref.p}) u={lparams[i]}")
    # (c) outside
    uo = case["outside"] if exact else lib.conv_param(case["outside"], num)
    if not exact and ref.U[0] <= oracle.frac(uo) <= ref.U[-1]:
        # the tiny distance was rounded away: step one unit in the last place outside the interval instead
        import math
        below = case["outside"] < c["U"][0]
        end = float(ref.U[0] if below else ref.U[-1])
        uo = math.nextafter(end, -math.inf if below else math.inf)
        uo = np.float64(uo) if num == "npfloat" else uo
        out.cls("outside-by-one-ulp")
    for arg, label in ((uo, "alone"), ([lparams[0], uo, lparams[-1]], "in-sequence")):
        try:
            val = curve(arg)
        except ValueError:
            continue
        except Exception as exc:  # wrong exception type
            if lib.from_library(exc) or True:
                out.fail("outside-wrong-exception", klass,
                         f"outside parameter {uo} ({label}) raised {type(exc).__name__}: {exc}")
            continue
        out.fail("outside-no-error", klass,
                 f"outside parameter {uo} ({label}) returned {val!r} instead of raising ValueError")
    # operand untouched
    after = lib.state_of(curve)
    if after.key() != ref.key():
        out.fail("operand-modified", klass, "evaluation changed the curve state")


@st.composite
def int_cases(draw):
    """Integer knots (int type): the library's divisions produce floats, compared to 1e-9."""
    p = draw(st.integers(0, 4))
    a = draw(st.integers(-3, 3))
    L = draw(st.integers(1, 6))
    c = draw(gen.curves(nums=("int",), interval=(F(a), F(a + L)), grid=L, degree=p, kmax=4,
                        values=st.integers(-12, 12).map(F)))
    return {"curve": c, "outside": draw(gen.outside_params(c["U"])), "seqtype": "tuple", "intparam": True}


FACETS = [
    Facet("exact", lambda tier: cases(("frac", "frac", "fracint"),
                                      pmax=5, kmax=5 if tier == "thorough" else 4),
          check, quick=1200, thorough=30000, rule="exact Fraction profile; exact equality + no float"),
    Facet("float", lambda tier: cases(("float", "npfloat"), pmax=5, kmax=4),
          check, quick=600, thorough=12000, rule="float/np.float64 profile; 1e-9 relative"),
    Facet("int-knots", lambda tier: int_cases(), check, quick=300, thorough=5000,
          rule="int knots and int points (float results), 1e-9 relative"),
]
