"""C09 - Derivate(curve) is the derivative of the curve."""
from fractions import Fraction as F

from hypothesis import strategies as st

from .. import gen, lib, oracle
from ..runner import Facet

RULE = ("curves of degree 0..4 with every multiplicity pattern (C0 knots of multiplicity p, discontinuities of "
        "multiplicity p+1), non-uniform knots, rational ~35%, scalar/vector points; D = Derivate(C) is evaluated (by "
        "the reference on D's state and by the library) at 3 interior points of every span of C and compared with the "
        "exact derivative of the span polynomial (quotient rule on exact numerator/denominator pieces). Non-trivial: "
        "an interior knot of multiplicity >= p, or at least two spans of different length")
ASSUMPTIONS = [
    "exact derivative from the interpolated span polynomials (oracle.local_poly)",
    "tolerance 1e-9*max(1,|D|,max|P|/h): the library computes difference coefficients in float64",
]


@st.composite
def cases(draw, nums):
    rational = draw(st.integers(0, 2)) == 0
    if nums == ("int",):
        a = draw(st.integers(-3, 3))
        L = draw(st.integers(1, 7))
        c = draw(gen.curves(0, 3 if rational else 4, 4, nums=nums, rational=rational, interval=(F(a), F(a + L)), grid=L,
                            values=st.integers(-12, 12).map(F)))
        return {"curve": c, "history": draw(st.sampled_from(lib.HISTORY_MODES))}
    if rational and draw(st.integers(0, 3)) == 0:
        # rational curves of degree 4 (the quotient rule then multiplies polynomials of degree 8): few knots
        c = draw(gen.curves(4, 4, 1, nums=nums, rational=True, regimes=False))
        return {"curve": draw(gen.weight_magnitude(c, wide=True)), "history": None}
    c = draw(gen.curves(0, 3 if rational else 4, 3 if rational else 4, nums=nums, rational=rational))
    c = draw(gen.weight_magnitude(c, wide=True))  # weights are homogeneous: the derivative does not depend on their common factor
    if c["num"] in ("frac", "fracint") and draw(st.integers(0, 4)) == 0:
        # the derivative is invariant under a translation of the parameter, however far from the origin (time stamps)
        sh = draw(st.sampled_from([F(17 * 10 ** 8), F(-10 ** 12), F(2 ** 31), F(10 ** 15)]))
        c = dict(c, U=[u + sh for u in c["U"]])
    return {"curve": c, "history": draw(st.sampled_from(lib.HISTORY_MODES))}


def exact_derivative(ref, lo, hi, ts):
    """Derivative values of every component at lo+(hi-lo)*t for t in ts."""
    h = hi - lo
    dim = ref.dim
    if ref.w is None:
        polys = [oracle.local_poly(oracle.component_func(ref, c), lo, hi, ref.p) for c in range(dim)]
        return [tuple(oracle.poly_eval(oracle.poly_der(pc), t) / h for pc in polys) for t in ts]
    num, den = oracle.numerator_state(ref), oracle.denominator_state(ref)
    pn = [oracle.local_poly(oracle.component_func(num, c), lo, hi, ref.p) for c in range(dim)]
    pw = oracle.local_poly(oracle.component_func(den, 0), lo, hi, ref.p)
    out = []
    for t in ts:
        w = oracle.poly_eval(pw, t)
        dw = oracle.poly_eval(oracle.poly_der(pw), t) / h
        vals = []
        for pc in pn:
            n = oracle.poly_eval(pc, t)
            dn = oracle.poly_eval(oracle.poly_der(pc), t) / h
            vals.append((dn * w - n * dw) / (w * w))
        out.append(tuple(vals))
    return out


def check(case, out):
    c = case["curve"]
    num = c["num"]
    exact = lib.is_exact(num)
    ref = lib.case_state(c)
    # (object history: the curve may have been constructed with other data, used / differentiated, and then given
    # its control points and weights through the public setters)
    def use(obj):
        lib.default_use(obj)
        try:
            lib.nurbs.calculus.Derivate(obj)
        except Exception as exc0:
            if not lib.from_library(exc0):
                raise
    curve = lib.build_curve_history(c, case.get("history"), use)
    if case.get("history"):
        out.cls("history=" + case["history"])
        if lib.state_of(curve).key() != ref.key():
            out.exclude("setter-history-did-not-reach-the-state (C15 territory)")
            return
    p = ref.p
    bk = oracle.breaks(ref.U)
    inner = bk[1:-1]
    kind = ("rational" if ref.w is not None else "polynomial")
    lens = {b - a for a, b in zip(bk[:-1], bk[1:])}
    hi_mult = any(oracle.mult(ref.U, z) >= max(p, 1) for z in inner)
    full_mult = any(oracle.mult(ref.U, z) == p + 1 for z in inner)
    out.cls(kind, "num=" + num, f"p={p}")
    if hi_mult:
        out.cls("interior-mult>=p")
    if full_mult:
        out.cls("interior-mult=p+1")
    if len(lens) >= 2:
        out.cls("non-uniform")
    out.nontrivial = hi_mult or len(lens) >= 2
    struct = "bezier" if not inner else ("mult=p+1" if full_mult else "mult=p" if hi_mult else "smooth")
    klass = f"{kind};{struct};p={'0' if p == 0 else '>=1'}" + ("" if exact else ";float")
    snap = lib.snapshot(curve)
    D = lib.nurbs.calculus.Derivate(curve) if hasattr(lib.nurbs, "calculus") else None
    if lib.snapshot(curve) != snap:
        out.fail("operand-modified", klass, "Derivate changed the curve")
    if not isinstance(D, lib.Curve):
        out.fail("result-type", klass, f"Derivate returned {type(D).__name__}")
        return
    d = lib.state_of(D)
    if d.limits != ref.limits:
        out.fail("interval", klass, f"derivative on {d.limits}, curve on {ref.limits}")
        return
    if d.dim != ref.dim:
        out.fail("shape", klass, f"derivative has {d.dim} components, curve {ref.dim}")
        return
    pmax = max([abs(x) for pt in ref.P for x in pt] + [F(1)])
    ts = [F(1, 7), F(1, 2), F(6, 7)]
    for lo, hi in zip(bk[:-1], bk[1:]):
        want = exact_derivative(ref, lo, hi, ts)
        for t, wv in zip(ts, want):
            u = lo + (hi - lo) * t
            lu = u if exact else lib.conv_param(u, num)
            fu = oracle.frac(lu)
            if not exact:
                # the float parameter differs slightly from u: differentiate at the float parameter
                wv = exact_derivative(ref, lo, hi, [(fu - lo) / (hi - lo)])[0]
            scale = max(F(1), max(abs(x) for x in wv), pmax / (hi - lo) / 100)
            tol = F(1, 10 ** 9) * scale
            got_ref = oracle.ceval(d, fu)
            if max(abs(a - b) for a, b in zip(got_ref, wv)) > tol:
                out.fail("derivative-wrong", klass,
                         f"U={ref.U} P={ref.P} w={ref.w}: D({u}) = {tuple(map(float, got_ref))} (state of D), "
                         f"exact derivative {tuple(map(float, wv))}; D: U={d.U} P={[tuple(map(float, q)) for q in d.P]} w={d.w}")
                return
            try:
                got_lib = lib.point_tuple(D(lu))
            except ValueError as exc:
                out.fail("derivative-not-evaluable", klass, f"D({lu}) raised {exc}")
                return
            if max(abs(a - b) for a, b in zip(got_lib, wv)) > tol:
                out.fail("derivative-wrong-libeval", klass,
                         f"U={ref.U} P={ref.P} w={ref.w}: D({u}) evaluates to {tuple(map(float, got_lib))}, exact {tuple(map(float, wv))}")
                return
    if p == 0:
        if any(x != 0 for pt in d.P for x in pt):
            out.fail("degree0-not-zero", klass, f"derivative of a degree-0 curve has control points {d.P}")


import compmec.nurbs.calculus  # noqa: E402,F401  (makes lib.nurbs.calculus available)

FACETS = [
    Facet("exact", lambda tier: cases(("frac", "fracint")), check, quick=500, thorough=8000,
          rule="Fraction knots/points"),
    Facet("float", lambda tier: cases(("float", "npfloat")), check, quick=250, thorough=4000, rule="float data"),
    Facet("int-knots", lambda tier: cases(("int",)), check, quick=250, thorough=4000,
          rule="int knots (non-uniform integer spacing) and int points"),
]
