"""C13 - curve equality means equality as functions, independent of representation."""
from fractions import Fraction as F

from hypothesis import strategies as st

from .. import gen, lib, oracle
from ..oracle import State
from ..runner import Facet

RULE = ("a generated curve A and a second operand B built by the *reference model*: a refined and/or elevated "
        "representation of A, of a perturbed copy (one control point moved by 1e-12 / 1e-3 / 1), a copy on another "
        "interval, rational variants (constant weights, weights scaled, one weight changed) or a non-curve; both "
        "operand orders, == and !=. The expected answer is decided exactly by the reference. Non-trivial: the two "
        "operands have different knot vectors (or one is rational and the other is not)")
ASSUMPTIONS = [
    "expected True: the two states are the same function exactly, or (polynomial) control points on the common "
    "refinement differ by <= 1e-10; expected False: they differ by >= 1e-8 there (rational: functions differ by >= 1e-6); "
    "cases in between are skipped and counted",
    "the second operand is built by oracle.refine_state (never by the library)",
]


@st.composite
def refinement(draw, U, p, max_nodes=3, max_t=2):
    """A refinement (U', p') of (U, p): elevation by t then insertion of nodes."""
    t = draw(st.sampled_from([0, 0, 1, max_t]))
    bk = gen.breaks_of(U)
    U2 = []
    for z in bk:
        U2 += [z] * (sum(1 for u in U if u == z) + t)
    p2 = p + t
    pool = []
    for lo, hi in zip(bk[:-1], bk[1:]):
        pool += [lo + (hi - lo) * f for f in (F(1, 2), F(1, 4), F(2, 3))]
    pool += bk[1:-1]
    k = draw(st.integers(0, max_nodes))
    for _ in range(k):
        z = draw(st.sampled_from(pool))
        if sum(1 for u in U2 if u == z) < p2 + 1:
            U2 = sorted(U2 + [z])
    return U2, p2


@st.composite
def cases(draw):
    rational = draw(st.integers(0, 3)) == 0
    variant = draw(st.sampled_from(
        ["same", "same", "perturbed", "perturbed", "interval", "weights-const", "weights-scaled",
         "weight-changed", "noncurve", "independent", "independent", "alike", "alike"]))
    heavy = rational or variant.startswith("weight")
    # rational comparison multiplies numerators and denominators exactly: keep those cases small
    if heavy:
        c = draw(gen.curves(0, 2, draw(st.sampled_from([0, 1, 1, 2])), rational=rational, nums=("frac",),
                            dim=draw(st.sampled_from([0, 0, 2]))))
    else:
        c = draw(gen.curves(0, 3, 3, rational=rational, nums=("frac",)))
    n = len(c["P"])
    other = None
    if variant == "independent":
        # an unrelated curve on the same interval: other degree, knots from the same grid (shared knots with
        # other multiplicities, corners where A is smooth); scalar/vector like A
        bk = gen.breaks_of(c["U"])
        scalar = not isinstance(c["P"][0], (list, tuple))
        other = draw(gen.curves(0, 3, 3, rational=False, nums=("frac",), interval=(bk[0], bk[-1]), grid=12,
                                dim=0 if scalar else len(c["P"][0])))
        if len(bk) > 2 and draw(st.booleans()):
            z = draw(st.sampled_from(bk[1:-1]))
            if z not in other["U"]:
                other["U"] = sorted(other["U"] + [z])
                other["P"] = other["P"] + [other["P"][-1]]
    return {
        "A": c, "variant": variant, "other": other,
        "refB": draw(refinement(c["U"], c["p"], 1, 1) if heavy else refinement(c["U"], c["p"])),
        "refA": draw(st.one_of(st.none(), st.none(), st.none() if heavy else refinement(c["U"], c["p"], 2, 1))),
        "index": draw(st.integers(0, n - 1)),
        "delta": draw(st.sampled_from([F(1, 10 ** 12), F(1, 1000), F(1), F(-1, 100)])),
        "factor": draw(st.sampled_from([F(2), F(1, 3), F(7, 2)])),
        "noncurve": draw(st.sampled_from(["int", "none", "list", "knotvector", "str", "function", "function-weights",
                                            "own-points", "ndarray", "pair", "class", "fraction"])),
        "history": draw(st.sampled_from(lib.HISTORY_MODES)),
    }


def build_from_state(s):
    U = list(s.U)
    if s.scalar:
        P = [pt[0] for pt in s.P]
    else:
        P = lib.conv_points([list(pt) for pt in s.P], "frac")
    return lib.Curve(U, P, None if s.w is None else list(s.w))


def check(case, out):
    a0 = lib.case_state(case["A"])
    variant = case["variant"]
    # the left operand may itself be given in a refined representation
    if case["refA"] is not None:
        a = oracle.refine_state(a0, *case["refA"])
    else:
        a = a0
    kindA = "rational" if a.w is not None else "polynomial"
    out.cls("variant=" + variant, "A=" + kindA)
    if variant == "noncurve":
        A = build_from_state(a)
        snapA = lib.snapshot(A)
        # anything that is not a curve, including the library's other public objects on the same knot vector
        def basis(weights):
            f = lib.Function(list(a.U))
            if weights:
                f.weights = [1 + F(i, 3) for i in range(f.npts)]
            return f
        other = {"int": lambda: 1, "none": lambda: None, "list": lambda: [1, 2], "str": lambda: "curve",
                 "knotvector": lambda: lib.KnotVector(list(a.U)),
                 "function": lambda: basis(False), "function-weights": lambda: basis(True),
                 "own-points": lambda: list(A.ctrlpoints), "ndarray": lambda: lib.np.array([float(x[0]) for x in a.P]),
                 "pair": lambda: (A.knotvector, A.ctrlpoints), "class": lambda: lib.Curve,
                 "fraction": lambda: F(1, 2)}[case["noncurve"]]()
        for label, fn, want in (("A == x", lambda: A == other, False), ("A != x", lambda: A != other, True)):
            try:
                got = fn()
            except Exception as exc:
                if not lib.from_library(exc):
                    raise
                out.fail("noncurve-raises", case["noncurve"], f"{label} with x={other!r} raised {type(exc).__name__}: {exc}")
                continue
            if got is not want and got != want:
                out.fail("noncurve", case["noncurve"], f"{label} with x={other!r} gave {got!r}")
        if lib.snapshot(A) != snapA:
            out.fail("operand-modified", "noncurve", "comparison changed the curve")
        out.nontrivial = False
        return
    # ---- build B's base function
    b0 = a0.copy()
    if variant == "independent":
        b0 = lib.case_state(case["other"])
    balanced = variant == "perturbed" and case["index"] % 2 == 1 and b0.n >= 2
    if variant == "perturbed" and not balanced:
        i = case["index"]
        pt = list(b0.P[i])
        pt[0] += case["delta"]
        b0.P[i] = tuple(pt)
    elif variant == "interval":
        b0.U = [u + 1 for u in b0.U]
    elif variant == "weights-const":
        c = case["factor"]
        if b0.w is None:
            b0.w = [c] * b0.n
        else:  # make A's twin polynomial only if its weights are constant: otherwise scale
            b0.w = [x * c for x in b0.w]
    elif variant == "weights-scaled":
        if b0.w is None:
            b0.w = [F(1)] * b0.n
        b0.w = [x * case["factor"] for x in b0.w]
    elif variant == "weight-changed":
        if b0.w is None:
            b0.w = [F(1)] * b0.n
        b0.w[case["index"]] *= case["factor"]
    U2, p2 = case["refB"]
    if variant == "interval":
        U2 = [u + 1 for u in U2]
    b = b0 if variant == "independent" else oracle.refine_state(b0, U2, p2)
    if balanced:
        # two control points of B's own (refined) representation moved by +delta and -delta: the differences
        # cancel in any sum over the control points, the functions differ all the same
        out.cls("balanced-perturbation")
        i = case["index"] % b.n
        j = (i + 1) % b.n
        for k, d in ((i, case["delta"]), (j, -case["delta"])):
            pt = list(b.P[k])
            pt[0] += d
            b.P[k] = tuple(pt)
    if variant == "alike":
        # two representations that look alike: same degree, same number of control points, same distinct knots,
        # but the extra knot copy sits at another knot (the same curve - or a perturbed one - refined differently)
        elig = [z for z in oracle.breaks(a0.U)[1:-1] if oracle.mult(a0.U, z) <= a0.p]
        if len(elig) >= 2:
            z1 = elig[case["index"] % len(elig)]
            z2 = elig[(case["index"] + 1) % len(elig)]
            if case["index"] % 3 == 0:
                i = case["index"] % b0.n
                pt = list(b0.P[i])
                pt[0] += case["delta"]
                b0.P[i] = tuple(pt)
            a = oracle.refine_state(a0, sorted(a0.U + [z1]), a0.p)
            b = oracle.refine_state(b0, sorted(b0.U + [z2]), b0.p)
            out.cls("alike-representations")
    kindB = "rational" if b.w is not None else "polynomial"
    out.cls("B=" + kindB)
    # ---- expected answer, decided by the reference
    if variant == "interval":
        expected = False
        why = "different intervals"
    else:
        wit = oracle.same_function(a, b)
        if wit is None:
            expected, why = True, "same function (exact)"
        elif a.w is None and b.w is None:
            Uc, pc = oracle.union_model(a.U, a.p, b.U, b.p)
            qa = oracle.refine_state(a, Uc, pc).P
            qb = oracle.refine_state(b, Uc, pc).P
            dist = max(abs(x - y) for pa, pb in zip(qa, qb) for x, y in zip(pa, pb))
            if dist <= F(1, 10 ** 10):
                expected, why = True, f"control points on the common refinement differ by {float(dist):.1e}"
            elif dist >= F(1, 10 ** 8):
                expected, why = False, f"control points on the common refinement differ by {float(dist):.1e}"
            else:
                out.exclude("ambiguous-band")
                return
        else:
            dev, where = oracle.max_deviation(a, b)
            if dev >= F(1, 10 ** 6):
                expected, why = False, f"functions differ by {float(dev):.1e} at u={where}"
            else:
                out.exclude("ambiguous-band")
                return
    A, B = build_from_state(a), build_from_state(b)
    if case.get("history"):
        # object history: A was constructed with other data, compared with B and used, and only then given its
        # control points / weights through the public setters
        out.cls("history=" + case["history"])
        acase = {"U": a.U, "p": a.p, "w": a.w, "num": "frac",
                 "P": [pt[0] for pt in a.P] if a.scalar else [list(pt) for pt in a.P]}

        def use(curve):
            lib.default_use(curve)
            for fn in (lambda: curve == B, lambda: B != curve, lambda: curve == A):
                try:
                    fn()
                except Exception as exc:
                    if not lib.from_library(exc):
                        raise
        A = lib.build_curve_history(acase, case["history"], use)
        if lib.state_of(A).key() != a.key():
            out.exclude("setter-history-did-not-reach-the-state (C15 territory)")
            return
    snapA, snapB = lib.snapshot(A), lib.snapshot(B)
    # structural class of the pair
    if a.U == b.U:
        rel = "same-vector"
    elif set(a.U) <= set(b.U) and a.p <= b.p and all(oracle.mult(a.U, z) + b.p - a.p <= oracle.mult(b.U, z) for z in set(a.U)):
        rel = "left-coarser"
    elif set(b.U) <= set(a.U) and b.p <= a.p and all(oracle.mult(b.U, z) + a.p - b.p <= oracle.mult(a.U, z) for z in set(b.U)):
        rel = "right-coarser"
    else:
        rel = "incomparable"
    if variant == "interval":
        rel = "other-interval"
    out.cls("rel=" + rel, "expected=" + str(expected), "degrees-differ" if a.p != b.p else "degrees-equal")
    out.nontrivial = a.U != b.U or (a.w is None) != (b.w is None)
    klass = f"{kindA}-vs-{kindB};{rel};expect-{expected}" + (";after-setter-history" if case.get("history") else "")
    for label, fn, want in (("A == B", lambda: A == B, expected), ("B == A", lambda: B == A, expected),
                            ("A != B", lambda: A != B, not expected), ("B != A", lambda: B != A, not expected),
                            ("A == A", lambda: A == A, True), ("B != B", lambda: B != B, False)):
        try:
            got = fn()
        except Exception as exc:
            if not lib.from_library(exc):
                raise
            out.fail("raises", klass + ";" + type(exc).__name__,
                     f"{label} raised {type(exc).__name__}: {exc} [A: U={a.U} P={a.P} w={a.w}; B: U={b.U} P={b.P} w={b.w}]")
            continue
        if bool(got) is not want:
            out.fail("wrong-answer" if "A" in label and "B" in label else "reflexivity", klass,
                     f"{label} gave {got!r}, expected {want} ({why}) [A: U={a.U} P={a.P} w={a.w}; B: U={b.U} P={b.P} w={b.w}]")
    if lib.snapshot(A) != snapA or lib.snapshot(B) != snapB:
        out.fail("operand-modified", klass, "comparison changed an operand")


FACETS = [
    Facet("exact", lambda tier: cases(), check, quick=1100, thorough=12000, rule="Fraction data", case_timeout=60),
]
