"""C05 - knot removal is exact when possible, refused otherwise, never silently lossy."""
from fractions import Fraction as F

from hypothesis import strategies as st

from .. import gen, lib, oracle
from ..oracle import State
from ..runner import Facet
from .c13 import build_from_state

RULE = ("round trip: a generated curve is refined by the reference model (1..4 inserted nodes, also at existing "
        "knots / repeated / at 0) and the library must remove exactly those nodes again; generic: interior knots "
        "(multiplicity 1..p+1, 1..3 copies) removed from generic curves with default / explicit tolerances "
        "(1e-12..1e-1) / tolerance=None, removability decided exactly by the reference; bad requests (absent knot, "
        "end knot, more copies than present). Non-trivial: removal of >= 2 copies or of a knot of multiplicity >= 2, "
        "or a refusal on a multi-span curve")
ASSUMPTIONS = [
    "removability: oracle.in_space / represent_rational on the reduced knot vector (exact)",
    "deviation bound: int (C-D)^2 <= 2*tol*max(1, umax-umin) per coordinate, exact integral (polynomial); rational "
    "curves: max deviation <= sqrt-scale of the same bound at sample points",
    "tolerance=None interpolation clause asserted for degree >= 1; rational forced removal may be refused (vanishing weight)",
    "float profile: only 'raised => unchanged', 'succeeded => bound', and the round trip for degree <= 3",
]

TOLS = ["default", "default", "none", F(1, 10 ** 12), F(1, 10 ** 6), F(1, 1000), F(1, 10), F(0)]


@st.composite
def roundtrip_cases(draw, nums=("frac",)):
    c = draw(gen.curves(0, 3 if nums != ("frac",) else 4, 3, nums=nums, rational=draw(st.integers(0, 4)) < 2))
    c = draw(gen.weight_magnitude(c))
    U, p = c["U"], c["p"]
    bk = gen.breaks_of(U)
    pool = list(bk[1:-1]) * 2
    for lo, hi in zip(bk[:-1], bk[1:]):
        pool += [lo + (hi - lo) * t for t in (F(1, 2), F(1, 3), F(3, 4))]
    if bk[0] < 0 < bk[-1]:
        pool += [F(0)] * 2
    k = draw(st.integers(1, 4))
    nodes = []
    for _ in range(k):
        z = draw(st.sampled_from(pool))
        if sum(1 for u in U if u == z) + nodes.count(z) < p + 1:
            nodes.append(z)
    tols = ["default", "default", "none", F(1, 10 ** 12)] if nums == ("frac",) else ["default", "default", "none"]
    return {"curve": c, "nodes": nodes, "tolerance": draw(st.sampled_from(tols))}


def call_remove(curve, nodes, tol, form=None):
    # the node sequence in one of the accepted forms (list / tuple / one-shot iterable), fixed by the node count
    if form is None:
        form = ("list", "tuple", "gen", "list", "iter", "map")[(len(nodes) * 2 + (0 if tol == "default" else 1)) % 6]
    nodes = lib.seq_form(nodes, form)
    if tol == "default":
        curve.knot_remove(nodes)
    elif tol == "none":
        curve.knot_remove(nodes, None)
    else:
        curve.knot_remove(nodes, float(tol))


def check_roundtrip(case, out):
    c = case["curve"]
    num = c["num"]
    exact = lib.is_exact(num)
    base = lib.case_state(c)
    nodes = [oracle.frac(lib.conv_knot(z, num)) for z in case["nodes"]]
    kind = ("rational" if base.w is not None else "polynomial") + (";exact" if exact else ";float")
    out.cls(kind, f"nodes={len(nodes)}", "tolerance=" + str(case["tolerance"] if isinstance(case["tolerance"], str) else "explicit"))
    if not nodes:
        out.exclude("no-node-fits")
        return
    bigU = sorted(base.U + nodes)
    big = oracle.refine_state(base, bigU, base.p)
    bk = oracle.breaks(base.U)
    at_knot = any(z in bk for z in nodes)
    repeated = len(set(nodes)) < len(nodes)
    if at_knot:
        out.cls("node-at-existing-knot")
    if repeated:
        out.cls("repeated-node")
    if F(0) in nodes:
        out.cls("node==0")
    out.nontrivial = len(nodes) >= 2 or at_knot
    klass = kind + (";at-knot" if at_knot else ";new-knot") + (";p=0" if base.p == 0 else "")
    if exact:
        curve = build_from_state(big)
        lnodes = list(nodes)
    else:
        P = [pt[0] for pt in big.P] if big.scalar else [list(pt) for pt in big.P]
        curve = lib.build_curve({"U": big.U, "P": P, "w": big.w, "num": num})
        big = lib.state_of(curve)
        lnodes = [lib.conv_knot(z, num) for z in nodes]
    try:
        call_remove(curve, lnodes, case["tolerance"])
    except ValueError as exc:
        out.fail("exact-removal-refused", klass,
                 f"knot_remove({nodes}, {case['tolerance']}) after inserting them into U={base.U} P={base.P} w={base.w}: ValueError {exc}")
        if lib.state_of(curve).key() != big.key():
            out.fail("atomicity", klass, "refused removal changed the curve")
        return
    after = lib.state_of(curve)
    if after.U != base.U or after.p != base.p:
        out.fail("knotvector", klass, f"after removal: {after.U}, expected {base.U}")
        return
    if exact:
        wit = oracle.same_function(base, after)
        if wit is not None:
            out.fail("removal-not-inverse", klass,
                     f"knot_remove({nodes}, {case['tolerance']}) after inserting them into U={base.U} P={base.P} w={base.w}: "
                     f"at u={wit[0]} original {wit[1]}, result {wit[2]}")
            return
        if base.w is None and after.P != base.P:
            out.fail("control-points", klass, f"got {after.P}, original {base.P}")
    else:
        dev, where = oracle.max_deviation(base, after)
        tol = F(1, 10 ** 7) * max([abs(x) for pt in base.P for x in pt] + [F(1)])
        if dev > tol:
            out.fail("removal-not-inverse", klass, f"float round trip deviates by {float(dev):.3e} at {float(where)}")


@st.composite
def generic_cases(draw, nums=("frac",)):
    c = draw(gen.curves(0, 4, 4, nums=nums, rational=draw(st.integers(0, 4)) < 2))
    c = draw(gen.weight_magnitude(c))
    c = draw(gen.flat_coordinate(c))
    bk = gen.breaks_of(c["U"])
    inner = bk[1:-1]
    kind = draw(st.sampled_from(["interior", "interior", "interior", "absent", "end", "too-many"]))
    nodes = []
    if inner and kind in ("interior", "too-many"):
        for z in draw(st.lists(st.sampled_from(inner), min_size=1, max_size=2, unique=True)):
            m = sum(1 for u in c["U"] if u == z)
            k = draw(st.integers(1, m))
            if kind == "too-many":
                k = m + 1
            nodes += [z] * k
    elif kind == "absent" or not inner:
        lo, hi = bk[0], bk[1]
        nodes = [lo + (hi - lo) * F(3, 7)]
        kind = "absent"
    elif kind == "end":
        nodes = [draw(st.sampled_from([bk[0], bk[-1]]))]
    return {"curve": c, "nodes": nodes, "kind": kind, "tolerance": draw(st.sampled_from(TOLS)),
            "decoy": draw(st.integers(0, 2)) == 0}


@st.composite
def special_cases(draw):
    """Rational curves on U_low + nodes whose weights alone (or numerator alone) live on U_low."""
    Ulow, p = draw(gen.knotvectors(0, 3, 2))
    bk = gen.breaks_of(Ulow)
    pool = list(bk[1:-1])
    for lo, hi in zip(bk[:-1], bk[1:]):
        pool += [lo + (hi - lo) * t for t in (F(1, 2), F(1, 3))]
    nodes = []
    for _ in range(draw(st.integers(1, 2))):
        z = draw(st.sampled_from(pool))
        if sum(1 for u in Ulow if u == z) + nodes.count(z) < p + 1:
            nodes.append(z)
    if not nodes:
        nodes = [(bk[0] + bk[1]) / 2]
    Uhigh = sorted(Ulow + nodes)
    c, kind = draw(gen.special_rational(Ulow, p, Uhigh, p))
    return {"curve": c, "nodes": nodes, "kind": "interior", "special": kind,
            "tolerance": draw(st.sampled_from(["default", "default", "none", F(1, 10 ** 6), F(0)]))}


def sq_integral(ref, after):
    worst = F(0)
    bku = oracle.union_breaks(ref.U, after.U)
    for cidx in range(ref.dim):
        f = lambda u, k=cidx: oracle.ceval(ref, u)[k] - oracle.ceval(after, u)[k]  # noqa: E731
        worst = max(worst, oracle.integral_product(f, ref.p, f, ref.p, bku))
    return worst


def check_generic(case, out):
    c = case["curve"]
    num = c["num"]
    exact = lib.is_exact(num)
    ref = lib.case_state(c)
    curve = lib.build_curve(c)
    lnodes = [lib.conv_knot(z, num) for z in case["nodes"]]
    nodes = [oracle.frac(z) for z in lnodes]
    tolc = case["tolerance"]
    kind = ("rational" if ref.w is not None else "polynomial") + (";exact" if exact else ";float")
    p = ref.p
    bk = oracle.breaks(ref.U)
    # classify the request ourselves
    newU = list(ref.U)
    ok = True
    for z in nodes:
        if z in newU:
            newU.remove(z)
        else:
            ok = False
    if not ok:
        req = "absent-or-too-many"
    elif any(z in (bk[0], bk[-1]) for z in nodes):
        req = "end-knot"
    else:
        req = "present"
    out.cls(kind, "request=" + req, "tolerance=" + (tolc if isinstance(tolc, str) else "explicit"))
    if case.get("decoy") and req == "present":
        # history: an unconstrained projection between the same two knot vectors happened before (stale caches)
        out.cls("decoy-projection-first")
        try:
            lib.Curve([lib.conv_knot(u, num) for u in newU]).fit_curve(curve)
        except Exception as exc0:
            if not lib.from_library(exc0):
                raise
    snap = lib.snapshot(curve)
    try:
        call_remove(curve, lnodes, tolc)
        exc = None
    except ValueError as e:
        exc = e
    if req != "present":
        out.nontrivial = len(bk) > 2
        if exc is None:
            out.fail("invalid-request-accepted", f"{kind};{req}", f"knot_remove({nodes}) on U={ref.U} accepted: {list(curve.knotvector)}")
        elif lib.snapshot(curve) != snap:
            out.fail("atomicity", f"{kind};{req}", f"knot_remove({nodes}) on U={ref.U} raised but changed the curve")
        return
    multi = any(oracle.mult(ref.U, z) >= 2 for z in nodes)
    if multi:
        out.cls("knot-mult>=2")
    if len(nodes) >= 2:
        out.cls(">=2-copies")
    if ref.w is None:
        removable = oracle.in_space(ref, newU, p)
    else:
        removable = oracle.represent_rational(ref, newU, p) is not None
    out.cls("removable" if removable else "not-removable")
    klass = kind + (";removable" if removable else ";not-removable") + (";p=0" if p == 0 else "")
    if case.get("special"):
        out.cls("special=" + case["special"])
        klass += ";" + case["special"]
    out.nontrivial = multi or len(nodes) >= 2 or exc is not None
    if exc is not None:
        if lib.snapshot(curve) != snap:
            out.fail("atomicity", klass, f"knot_remove({nodes}, {tolc}) on U={ref.U} raised ValueError but changed the curve")
        if removable and exact:
            out.fail("exact-removal-refused", klass, f"U={ref.U} P={ref.P} w={ref.w}: {nodes} exactly removable but refused: {exc}")
        elif tolc == "none" and p >= 1 and ref.w is None:
            out.fail("forced-removal-refused", klass, f"knot_remove({nodes}, None) on U={ref.U} P={ref.P} raised {exc}")
        out.cls("refused")
        return
    out.cls("succeeded")
    after = lib.state_of(curve)
    if after.U != newU or after.p != p:
        out.fail("knotvector", klass, f"knot_remove({nodes}) on U={ref.U}: got {after.U}, expected {newU}")
        return
    if len(after.P) != len(newU) - p - 1 or (after.w is not None and len(after.w) != len(after.P)):
        out.fail("npts", klass, f"{len(after.P)} control points on {newU}")
        return
    if removable and exact:
        wit = oracle.same_function(ref, after)
        if wit is not None:
            out.fail("exact-removal-lossy", klass,
                     f"U={ref.U} P={ref.P} w={ref.w}: {nodes} exactly removable but the result differs at u={wit[0]}: {wit[1]} vs {wit[2]}")
        return
    L = max(F(1), ref.U[-1] - ref.U[0])
    if tolc != "none":
        tol = F(1, 10 ** 9) if tolc == "default" else oracle.frac(float(tolc))
        if ref.w is None:
            dev2 = sq_integral(ref, after)
            slack = F(0) if exact else F(1, 10 ** 12)
            if dev2 > 2 * tol * L + slack:
                out.fail("silently-lossy", klass,
                         f"knot_remove({nodes}, {tolc}) succeeded on U={ref.U} P={ref.P}: int (C-D)^2 = {float(dev2):.3e} > {float(2*tol*L):.1e}")
        else:
            dev, where = oracle.max_deviation(ref, after)
            wmin = min(abs(x) for x in ref.w) / max(abs(x) for x in ref.w)  # the library measures at unit-weight scale
            bound = (2 * float(tol) * float(L)) ** 0.5 * 100 / float(wmin)
            if float(dev) > max(bound, 1e-12):
                out.fail("silently-lossy", klass,
                         f"knot_remove({nodes}, {tolc}) succeeded on rational U={ref.U} P={ref.P} w={ref.w}: deviation {float(dev):.3e} at {where}")
        return
    if p >= 1:
        tolv = F(0) if exact else F(1, 10 ** 9) * max([abs(x) for pt in ref.P for x in pt] + [F(1)])
        for z in oracle.breaks(newU):
            a, b = oracle.ceval(ref, z), oracle.ceval(after, z)
            if max(abs(x - y) for x, y in zip(a, b)) > tolv:
                out.fail("forced-removal-moves-knot-values", klass,
                         f"knot_remove({nodes}, None) on U={ref.U} P={ref.P} w={ref.w}: value at remaining knot {z}: {a} -> {b}")
                break


FACETS = [
    Facet("roundtrip", lambda tier: roundtrip_cases(("frac",)), check_roundtrip, quick=700, thorough=7000,
          rule="insert by the reference, remove by the library: exact inverse"),
    Facet("roundtrip-float", lambda tier: roundtrip_cases(("float", "npfloat")), check_roundtrip, quick=120,
          thorough=2000, rule="float round trip to 1e-7"),
    Facet("generic", lambda tier: generic_cases(("frac",)), check_generic, quick=900, thorough=8000,
          rule="removable => exact; otherwise refused+unchanged or within the bound; tolerance=None interpolates"),
    Facet("generic-float", lambda tier: generic_cases(("float",)), check_generic, quick=150, thorough=2500,
          rule="float data: safe direction only"),
    Facet("rational-special", lambda tier: special_cases(), check_generic, quick=400, thorough=3000,
          rule="rational curves whose weight function alone / numerator alone / constant weights allow the removal"),
]
