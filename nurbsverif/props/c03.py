"""C03 - every reachable KnotVector is a well-formed clamped vector; queries agree.

Histories are generated as *data* (a list of abstract operations whose
arguments are selectors resolved against the current model state), interpreted
against the real object and a list model.  On a discrepancy the failure is
recorded and the model is re-synchronised so that the run continues."""
import copy as _copy
from fractions import Fraction as F

from hypothesis import strategies as st

from .. import gen, lib, oracle
from ..runner import Facet

RULE = ("operation histories (3..30 steps; insert/remove/+=/-=, shift, scale, *=, /=, normalize, convert, "
        "degree setter, |, &, |=, &=, split, copy/deepcopy, non-mutating kv+x, kv-x, kv*s, kv/s; ~40% invalid "
        "arguments) on generated valid vectors, list model + well-formedness predicate after every step; "
        "constructor facet: lists over <=4 distinct values, length 0..12, optional degree, non-numeric data. "
        "Non-trivial history: >=3 steps with a rejected request followed later by a successful mutation; "
        "non-trivial constructor case: length >= 3 numeric list")
ASSUMPTIONS = [
    "oracle: list model (sorted multiset, linear scans) in nurbsverif/props/c03.py + oracle.wellformed",
    "TypeError is accepted (besides ValueError) only when the argument is non-numeric / not iterable; "
    "numeric but invalid requests must raise ValueError for construction, insertion and removal",
    "requests the statement does not pin down (symmetric insertion/removal of end knots, & with different degrees) "
    "may either raise-and-leave-unchanged or return a well-formed result",
    "NaN/inf and knots closer than 1e-6 are outside the domain",
]

NONNUM = ["a", None]
NAN = float("nan")


# ----------------------------------------------------------------- strategies

def node_selectors():
    return st.one_of(
        st.tuples(st.just("knot"), st.integers(0, 7)),
        st.tuples(st.just("knot"), st.integers(0, 7)),
        st.tuples(st.just("new"), st.integers(0, 7), st.sampled_from([F(1, 2), F(1, 3), F(3, 4), F(1, 5)])),
        st.tuples(st.just("new"), st.integers(0, 7), st.sampled_from([F(1, 2), F(1, 3), F(3, 4), F(1, 5)])),
        st.tuples(st.just("end"), st.integers(0, 1)),
        st.tuples(st.just("outside"), st.integers(0, 1), st.sampled_from([F(1, 1000), F(1), F(7, 2)])),
        st.tuples(st.just("nonnum"), st.integers(0, 1)),
        st.tuples(st.just("nan"), st.integers(0, 1)),
    )


def valid_node_selectors():
    return st.one_of(
        st.tuples(st.just("knot"), st.integers(0, 7)),
        st.tuples(st.just("new"), st.integers(0, 7), st.sampled_from([F(1, 2), F(1, 3), F(3, 4), F(1, 5)])),
    )


def node_lists():
    return st.one_of(
        st.lists(valid_node_selectors(), min_size=0, max_size=3),
        st.lists(valid_node_selectors(), min_size=1, max_size=3),
        st.lists(node_selectors(), min_size=1, max_size=3),
    )


SHIFTS = [F(1), F(-1), F(1, 2), F(-3, 4), F(5), 2, -1, F(1, 3)]
SCALES = [F(2), F(1, 2), F(3), F(1, 3), 2, F(5, 4), F(4, 5)]
BADSCALES = [0, -1, F(-1, 2), F(0)]


@st.composite
def second_vector(draw):
    return {"samedeg": draw(st.integers(0, 2)) > 0, "q": draw(st.integers(0, 3)),
            "knots": draw(st.lists(st.tuples(valid_node_selectors(), st.integers(1, 4)), max_size=3)),
            "other_interval": draw(st.integers(0, 5)) == 0}


def ops():
    return st.one_of(
        st.tuples(st.sampled_from(["insert", "iadd_list", "add_list"]), node_lists()),
        st.tuples(st.sampled_from(["remove", "isub_list", "sub_list"]), node_lists()),
        st.tuples(st.sampled_from(["shift", "iadd_num", "isub_num", "add_num", "sub_num"]),
                  st.one_of(st.sampled_from(SHIFTS), st.sampled_from(SHIFTS), st.sampled_from(NONNUM), st.just(NAN))),
        st.tuples(st.sampled_from(["scale", "imul", "itruediv", "mul", "rmul", "truediv"]),
                  st.one_of(st.sampled_from(SCALES), st.sampled_from(SCALES),
                            st.sampled_from(BADSCALES), st.just("a"))),
        st.tuples(st.just("normalize"), st.none()),
        st.tuples(st.just("convert"), st.sampled_from(["int", "float", "Fraction"])),
        st.tuples(st.just("degree"), st.integers(-2, 3)),
        st.tuples(st.sampled_from(["or", "ior", "and", "iand"]), second_vector()),
        st.tuples(st.just("split"), node_lists()),
        st.tuples(st.sampled_from(["copy", "deepcopy"]), node_lists()),
    )


@st.composite
def histories(draw, num, maxsteps=30):
    U, p = draw(gen.knotvectors(0, 3, 3))
    how = draw(st.sampled_from(["ctor", "ctor", "ctor-degree", "uniform", "integer", "bezier"]))
    n = len(U) - p - 1
    steps = draw(st.lists(ops(), min_size=3, max_size=maxsteps))
    return {"U": U, "p": p, "how": how, "n": min(n, p + 6), "num": num, "steps": steps}


@st.composite
def ctor_cases(draw):
    kind = draw(st.integers(0, 9))
    alphabet = draw(st.lists(st.sampled_from([F(0), F(1), F(2), F(3), F(1, 2), F(-1), F(5, 2)]),
                             min_size=1, max_size=4, unique=True))
    L = draw(st.lists(st.sampled_from(alphabet), min_size=0, max_size=12))
    if kind < 7:
        L = sorted(L)
    degree = draw(st.one_of(st.none(), st.none(), st.integers(-1, 4)))
    bad = None
    if kind == 9:
        bad = draw(st.sampled_from(["str-elem", "none-elem", "nested", "none", "int", "nan-elem", "nan-elem"]))
    num = draw(st.sampled_from(["frac", "int", "float"]))
    return {"L": L, "degree": degree, "bad": bad, "num": num,
            "container": draw(st.sampled_from(["list", "tuple"]))}


# ----------------------------------------------------------------- interpreter helpers

def resolve_node(sel, U, conv):
    """Resolve a selector against the current exact list U -> (value, kind)."""
    bk = oracle.breaks(U)
    a, b = bk[0], bk[-1]
    kind = sel[0]
    if kind == "knot":
        inner = bk[1:-1]
        if not inner:
            kind, sel = "new", ("new", sel[1], F(1, 2))
        else:
            return inner[sel[1] % len(inner)], "interior"
    if kind == "new":
        i = sel[1] % (len(bk) - 1)
        z = bk[i] + (bk[i + 1] - bk[i]) * sel[2]
        z = oracle.frac(conv(z))
        if not (bk[i] < z < bk[i + 1]):
            z = (bk[i] + bk[i + 1]) / 2
        return z, "interior"
    if kind == "end":
        return (a if sel[1] == 0 else b), "end"
    if kind == "outside":
        return (a - sel[2] if sel[1] == 0 else b + sel[2]), "outside"
    if kind == "nan":
        return float("nan"), "nonnum"
    return NONNUM[sel[1]], "nonnum"


def lib_value(z, sample):
    """Give z the number type of ``sample`` (an element of the vector)."""
    if isinstance(z, F):
        if isinstance(sample, F):
            return z
        if isinstance(sample, bool):
            return z
        if isinstance(sample, int):
            return int(z) if z.denominator == 1 else z
        if isinstance(sample, float):
            return float(z)
        return type(sample)(float(z))
    return z


def close(a, b):
    if isinstance(a, (int, F)) and isinstance(b, (int, F)):
        return a == b
    fa, fb = oracle.frac(a), oracle.frac(b)
    return abs(fa - fb) <= F(1, 10 ** 11) * max(1, abs(fb))


class Machine:
    def __init__(self, case, out):
        self.case, self.out = case, out
        self.num = case["num"]
        self.klass = "exact" if lib.is_exact(self.num) else "float"
        self.rejected_seen = False

    def conv(self, z):
        return lib.conv_knot(z, self.num)

    def fail(self, clause, detail, msg):
        self.out.fail(clause, f"{self.klass};{detail}", msg)

    # -------- invariant
    def invariant(self, kv, where):
        try:
            L = list(kv)
            p = kv.degree
        except Exception as exc:
            self.fail("invariant", "unreadable", f"{where}: {type(exc).__name__} {exc}")
            return None
        try:
            U = [oracle.frac(u) for u in L]
        except Exception:
            self.fail("invariant", "non-numeric-content", f"{where}: list {L!r}")
            return None
        why = oracle.wellformed(U, p) if isinstance(p, int) else "degree is not an int"
        if why:
            self.fail("wellformed", why, f"{where}: {L} with degree {p}: {why}")
            return None
        n = len(U) - p - 1
        bk = oracle.breaks(U)
        try:
            if kv.npts != n:
                self.fail("attrs", "npts", f"{where}: npts={kv.npts}, list says {n}")
            kn = [oracle.frac(x) for x in kv.knots]
            if kn != bk:
                self.fail("attrs", "knots", f"{where}: knots={kv.knots}, list says {bk}")
            lim = tuple(oracle.frac(x) for x in kv.limits)
            if lim != (U[0], U[-1]):
                self.fail("attrs", "limits", f"{where}: limits={kv.limits}")
            if len(kv) != len(U):
                self.fail("attrs", "len", f"{where}: len={len(kv)}")
        except Exception as exc:
            if not lib.from_library(exc):
                raise
            self.fail("attrs", "exception", f"{where}: {type(exc).__name__} {exc}")
        # queries
        sample = L[0]
        # query nodes as the library sees them: the knot elements themselves, and midpoints in the
        # vector's number type; expectations are computed from exactly those values
        libnodes = []
        for z in bk:
            libnodes.append(L[U.index(z)])
        for lo, hi in zip(bk[:-1], bk[1:]):
            m = lib_value((lo + hi) / 2, sample)
            if lo < oracle.frac(m) < hi:
                libnodes.append(m)
            # nodes next to a knot but not on it (well outside the 1e-9 of the tolerance count): not occurrences
            for d in (F(1, 10 ** 7), F(1, 10 ** 5)):
                if 4 * d < hi - lo:
                    for x in (lib_value(lo + d, sample), lib_value(hi - d, sample)):
                        if lo + d / 2 < oracle.frac(x) < hi - d / 2:
                            libnodes.append(x)
        nodes = [oracle.frac(x) for x in libnodes]
        good = []
        for lu, u in zip(libnodes, nodes):
            good.append(lu)
            try:
                sp, mu, va = kv.span(lu), kv.mult(lu), kv.valid(lu)
            except Exception as exc:
                if not lib.from_library(exc):
                    raise
                self.fail("query", "exception-inside", f"{where}: query at {lu} raised {type(exc).__name__} {exc}")
                continue
            esp = oracle.span_index(U, u)
            if sp != esp:
                self.fail("query", "span", f"{where}: span({lu})={sp}, element list {L} says {esp}")
            if mu != oracle.mult(U, u):
                self.fail("query", "mult", f"{where}: mult({lu})={mu}, element list says {oracle.mult(U, u)}")
            if va is not True:
                self.fail("query", "valid", f"{where}: valid({lu})={va!r} inside the interval")
        try:
            sps = kv.span(good)
            mus = kv.mult(tuple(good))
            if tuple(sps) != tuple(oracle.span_index(U, u) for u in nodes):
                self.fail("query", "span-list", f"{where}: span(list)={sps}")
            if tuple(mus) != tuple(oracle.mult(U, u) for u in nodes):
                self.fail("query", "mult-list", f"{where}: mult(list)={mus}")
        except Exception as exc:
            if not lib.from_library(exc):
                raise
            self.fail("query", "exception-inside", f"{where}: list query raised {type(exc).__name__} {exc}")
        d = (U[-1] - U[0]) / 8
        for bad in (lib_value(U[0] - d, sample), lib_value(U[-1] + d, sample), "a", None,
                    [good[0], lib_value(U[-1] + d, sample)]):
            try:
                va = kv.valid(bad)
                if va is not False:
                    self.fail("query", "valid-outside", f"{where}: valid({bad!r})={va!r}")
            except Exception as exc:
                if not lib.from_library(exc):
                    raise
                self.fail("query", "valid-raises", f"{where}: valid({bad!r}) raised {type(exc).__name__}")
            for qname in ("span", "mult"):
                try:
                    r = getattr(kv, qname)(bad)
                    self.fail("query", qname + "-outside-no-error", f"{where}: {qname}({bad!r})={r!r}")
                except ValueError:
                    pass
                except Exception as exc:
                    if not lib.from_library(exc):
                        raise
                    self.fail("query", qname + "-outside-wrong-exception",
                              f"{where}: {qname}({bad!r}) raised {type(exc).__name__}")
        return L, p

    # -------- expectation check after an operation
    def settle(self, kv, before, result, exc, verdict, expected, opname, detail, allowed=(ValueError,)):
        """verdict: 'succeed' | 'reject' | 'either' | 'wellformed-only'.
        expected: (list of Fractions, degree) for succeed/either, else None."""
        L0, p0 = before
        where = f"step {self.step} {opname}"
        if exc is not None:
            unchanged = self.same_list(kv, L0, p0)
            if not unchanged:
                self.fail("atomicity", detail, f"{where}: raised {type(exc).__name__} but the vector changed "
                                               f"from {L0} to {list(kv)}")
            if verdict in ("succeed", "wellformed-only"):
                self.fail("valid-request-rejected", detail,
                          f"{where} on {L0} (degree {p0}): raised {type(exc).__name__}: {exc}")
            elif not isinstance(exc, allowed):
                self.fail("wrong-exception-type", detail,
                          f"{where} on {L0}: raised {type(exc).__name__} ({exc}), expected {[a.__name__ for a in allowed]}")
            self.rejected_seen = True
            return False
        if verdict == "reject":
            self.fail("invalid-request-accepted", detail,
                      f"{where} on {L0} (degree {p0}) was accepted; vector is now {list(kv)}")
            return True
        if expected is not None:
            EL, ep = expected
            try:
                L = list(kv)
                ok = len(L) == len(EL) and all(close(x, y) for x, y in zip(L, EL))
                if self.klass == "exact" and ok and verdict == "succeed":
                    ok = all(oracle.frac(x) == y for x, y in zip(L, EL))
            except Exception:
                ok = False
            if not ok:
                self.fail("wrong-result", detail, f"{where} on {L0}: got {list(kv)}, model says {EL}")
            elif ep is not None and kv.degree != ep:
                self.fail("wrong-result", detail + ";degree", f"{where}: degree {kv.degree}, model says {ep}")
        return True

    def same_list(self, kv, L0, p0):
        try:
            L = list(kv)
            return (len(L) == len(L0) and all(type(x) is type(y) and x == y for x, y in zip(L, L0))
                    and kv.degree == p0)
        except Exception:
            return False

    # -------- run
    def run(self):
        case, out = self.case, self.out
        Ulib = [self.conv(u) for u in case["U"]]
        p = case["p"]
        how = case["how"]
        KV, G = lib.KnotVector, lib.GeneratorKnotVector
        cls = F if self.klass == "exact" else float
        if how == "ctor":
            kv = KV(Ulib)
        elif how == "ctor-degree":
            kv = KV(Ulib, degree=p)
        elif how == "uniform":
            kv = G.uniform(p, case["n"], cls)
        elif how == "integer":
            kv = G.integer(p, case["n"], cls)
        else:
            kv = G.bezier(p, cls)
        out.cls("init=" + how, "num=" + self.num)
        self.step = 0
        cur = self.invariant(kv, "initial")
        nsteps = 0
        success_after_reject = False
        for self.step, (name, arg) in enumerate(case["steps"], 1):
            if cur is None:
                # cannot continue from a malformed object: restart from a fresh valid one
                kv = KV(Ulib)
                cur = self.invariant(kv, "restart")
                if cur is None:
                    return
            was_rejected = self.rejected_seen
            changed = self.apply(kv, cur, name, arg)
            nsteps += 1
            if isinstance(changed, tuple):
                kv = changed[1]
                changed = changed[0]
            cur = self.invariant(kv, f"after step {self.step} {name}")
            if changed and was_rejected:
                success_after_reject = True
            if cur is not None:
                kinds = {isinstance(x, float) for x in cur[0]}
                if len(kinds) == 2:
                    # floats and exact numbers in one vector (convert(int) + a Fraction node + normalize): every further
                    # argument would have to be built in two number types at once; the history stops here
                    out.cls("mixed-number-types-stop")
                    break
        out.nontrivial = nsteps >= 3 and success_after_reject

    def apply(self, kv, cur, name, arg):
        """Returns True when a mutation succeeded."""
        L0, p0 = cur
        U = [oracle.frac(u) for u in L0]
        sample = L0[0]
        self.klass = "exact" if isinstance(sample, (int, F)) and not isinstance(sample, bool) else "float"
        out = self.out
        out.cls("op=" + name)
        before = (L0, p0)
        KV = lib.KnotVector

        def call(fn):
            try:
                return fn(), None
            except Exception as exc:
                if not lib.from_library(exc) and not isinstance(exc, (TypeError, ValueError, AssertionError)):
                    raise
                return None, exc

        if name in ("insert", "iadd_list", "add_list", "remove", "isub_list", "sub_list"):
            resolved = [resolve_node(s, U, lambda z: lib_value(z, sample)) for s in arg]
            nodes = [lib_value(z, sample) for z, _ in resolved]
            kinds = [k for _, k in resolved]
            inserting = name in ("insert", "iadd_list", "add_list")
            nonmut = name in ("add_list", "sub_list")
            if "nonnum" in kinds:
                verdict, expected, detail = "reject", None, "non-numeric-node"
                allowed = (ValueError, TypeError)
            else:
                allowed = (ValueError,)
                vals = [z for z, _ in resolved]
                if inserting:
                    new = sorted(U + vals)
                    if "outside" in kinds:
                        verdict, expected, detail = "reject", None, "node-outside"
                    elif "end" in kinds:
                        verdict, expected, detail = "either", (new, None), "end-node"
                    elif oracle.wellformed(new, p0):
                        verdict, expected, detail = "reject", None, "multiplicity-above-degree+1"
                    else:
                        verdict, expected, detail = "succeed", (new, p0), "interior-nodes"
                else:
                    new = list(U)
                    absent = False
                    for z in vals:
                        if z in new:
                            new.remove(z)
                        else:
                            absent = True
                    if absent:
                        verdict, expected, detail = "reject", None, "absent-knot"
                    elif "end" in kinds:
                        pnew = oracle.infer_degree(new) if new else -1
                        if new and len(new) >= 2 and new[0] != new[-1] and not oracle.wellformed(new, pnew):
                            verdict, expected, detail = "either", (new, None), "end-knots-symmetric"
                        else:
                            verdict, expected, detail = "reject", None, "end-knot"
                    else:
                        verdict, expected, detail = "succeed", (new, p0), "interior-knots"
            out.cls(("insert:" if inserting else "remove:") + detail)
            # the node sequence in any accepted form (one-shot iterables included), chosen from the step data
            form = ("list", "tuple", "list", "gen", "iter", "map")[(self.step * 5 + len(nodes)) % 6]
            if form in ("gen", "iter", "map"):
                out.cls("nodes-as-" + form)
                detail += ";one-shot-iterable"
            nodes = lib.seq_form(nodes, form)
            if name == "insert":
                res, exc = call(lambda: kv.insert(nodes))
            elif name == "remove":
                res, exc = call(lambda: kv.remove(nodes))
            elif name == "iadd_list":
                def f():
                    k = kv
                    k += nodes
                    return k
                res, exc = call(f)
            elif name == "isub_list":
                def f():
                    k = kv
                    k -= nodes
                    return k
                res, exc = call(f)
            elif name == "add_list":
                res, exc = call(lambda: kv + nodes)
            else:
                res, exc = call(lambda: kv - nodes)
            if nonmut:
                if not self.same_list(kv, L0, p0):
                    self.fail("operand-modified", name, f"step {self.step} {name}: operand changed to {list(kv)}")
                if exc is None:
                    ok = self.settle(res, before, res, None, verdict, expected, name, detail, allowed)
                    self.invariant(res, f"result of step {self.step} {name}")
                else:
                    self.settle(kv, before, None, exc, verdict, expected, name, detail, allowed)
                return False
            if exc is None and res is not kv:
                self.fail("identity", name, f"step {self.step} {name} did not return the same instance")
            return self.settle(kv, before, res, exc, verdict, expected, name, detail, allowed)

        if name in ("shift", "iadd_num", "isub_num", "add_num", "sub_num"):
            a = arg
            numeric = isinstance(a, (int, F))
            if isinstance(a, float):  # NaN: not a number, must be rejected like any non-numeric shift
                numeric = False
            la = lib_value(a, sample) if numeric else a
            sign = -1 if name in ("isub_num", "sub_num") else 1
            if numeric:
                verdict, expected, detail = "succeed", ([u + sign * oracle.frac(la) for u in U], p0), "numeric"
            else:
                verdict, expected, detail = "reject", None, "non-numeric"
                if a is None and name in ("iadd_num", "add_num", "isub_num", "sub_num"):
                    verdict = "either"  # += None falls through to insert(None)
            out.cls("shift:" + detail)
            if name == "shift":
                res, exc = call(lambda: kv.shift(la))
            elif name == "iadd_num":
                def f():
                    k = kv
                    k += la
                    return k
                res, exc = call(f)
            elif name == "isub_num":
                def f():
                    k = kv
                    k -= la
                    return k
                res, exc = call(f)
            elif name == "add_num":
                res, exc = call(lambda: kv + la)
            else:
                res, exc = call(lambda: kv - la)
            return self.finish(kv, before, res, exc, verdict, expected, name, detail,
                               nonmut=name in ("add_num", "sub_num"))

        if name in ("scale", "imul", "itruediv", "mul", "rmul", "truediv"):
            s = arg
            numeric = isinstance(s, (int, F))
            ls = lib_value(s, sample) if numeric else s
            div = name in ("itruediv", "truediv")
            length = U[-1] - U[0]
            if numeric and s > 0:
                fs = oracle.frac(ls)
                factor = 1 / fs if div else fs
                if not (F(1, 100) <= length * factor <= 1000):
                    # keep the vector in a numerically sane range: use the inverse
                    ls = lib_value(1 / oracle.frac(s), sample) if isinstance(sample, float) else 1 / F(s)
                    fs = oracle.frac(ls)
                    factor = 1 / fs if div else fs
                verdict, expected, detail = "succeed", ([u * factor for u in U], p0), "positive"
                if div and isinstance(ls, int) and ls != 1:
                    expected = None  # 1/int is a float: result only approximately predictable
                    verdict = "wellformed-only"
            elif numeric:
                verdict, expected, detail = "reject", None, "non-positive"
            else:
                verdict, expected, detail = "reject", None, "non-numeric"
            out.cls("scale:" + detail)
            if name == "scale":
                res, exc = call(lambda: kv.scale(ls))
            elif name == "imul":
                def f():
                    k = kv
                    k *= ls
                    return k
                res, exc = call(f)
            elif name == "itruediv":
                def f():
                    k = kv
                    k /= ls
                    return k
                res, exc = call(f)
            elif name == "mul":
                res, exc = call(lambda: kv * ls)
            elif name == "rmul":
                res, exc = call(lambda: ls * kv)
            else:
                res, exc = call(lambda: kv / ls)
            return self.finish(kv, before, res, exc, verdict, expected, name, detail,
                               nonmut=name in ("mul", "rmul", "truediv"),
                               allowed=(ValueError, TypeError, AssertionError, ZeroDivisionError))

        if name == "normalize":
            length = U[-1] - U[0]
            expected = ([(u - U[0]) / length for u in U], p0)
            res, exc = call(lambda: kv.normalize())
            verdict = "wellformed-only" if isinstance(sample, int) else "succeed"
            return self.finish(kv, before, res, exc, verdict, expected, name, "normalize")

        if name == "convert":
            cls = {"int": int, "float": float, "Fraction": F}[arg]
            representable = True
            if cls is int:
                representable = all(u.denominator == 1 for u in U)
            verdict = "succeed" if representable else "reject"
            expected = (list(U), p0) if representable else None
            if cls is float and self.klass == "exact":
                expected = ([F(float(u)) for u in U], p0)
                self.klass_after = "float"
            res, exc = call(lambda: kv.convert(cls))
            out.cls("convert:" + ("ok" if representable else "not-representable"))
            r = self.finish(kv, before, res, exc, verdict, expected, name, "to-" + arg,
                            allowed=(ValueError, TypeError))
            if exc is None and representable:
                bad = [u for u in kv if not isinstance(u, cls)]
                if bad:
                    self.fail("wrong-result", "convert-type", f"step {self.step}: convert({arg}) left {type(bad[0]).__name__}")
            return r

        if name == "degree":
            d = arg + p0 if arg >= 0 else arg  # relative for non-negative, absolute negative values
            if arg >= 0:
                d = max(0, p0 + (arg - 1))  # arg in 0..3 -> p0-1 .. p0+2
            diff = d - p0
            bk = oracle.breaks(U)
            if d < 0:
                verdict, expected, detail = "reject", None, "negative-degree"
            else:
                new = []
                ok = True
                for z in bk:
                    m = oracle.mult(U, z) + diff
                    if m < 0:
                        ok = False
                    new += [z] * max(m, 0)
                if ok and not oracle.wellformed(new, d):
                    verdict, expected, detail = "succeed", (new, d), ("raise" if diff > 0 else "lower" if diff < 0 else "same")
                else:
                    verdict, expected, detail = "reject", None, "interior-multiplicity-too-small"
            out.cls("degree:" + detail)

            def f():
                kv.degree = d
                return kv
            res, exc = call(f)
            return self.finish(kv, before, res, exc, verdict, expected, name, detail,
                               allowed=(ValueError, AssertionError, TypeError))

        if name in ("or", "ior", "and", "iand"):
            q = p0 if arg["samedeg"] else arg["q"]
            bk = oracle.breaks(U)
            V = [bk[0]] * (q + 1)
            inner = {}
            for sel, m in arg["knots"]:
                z, _ = resolve_node(sel, U, lambda z: lib_value(z, sample))
                inner[z] = min(m, q + 1)
            for z in sorted(inner):
                V += [z] * inner[z]
            V += [bk[-1]] * (q + 1)
            if arg["other_interval"]:
                V = [v + 1 for v in V]
            other = KV([lib_value(v, sample) for v in V])
            isor = name in ("or", "ior")
            if arg["other_interval"]:
                verdict, expected, detail = "reject", None, "different-interval"
            elif q == p0:
                if isor:
                    expected = (oracle.union_model(U, p0, V, q)[0], p0)
                else:
                    expected = (oracle.intersection_model(U, V), p0)
                verdict, detail = "succeed", "same-degree"
            else:
                verdict, expected, detail = ("wellformed-only" if isor else "either"), None, "different-degree"
            out.cls(("or:" if isor else "and:") + detail)
            otherL = list(other)
            if name == "or":
                res, exc = call(lambda: kv | other)
            elif name == "and":
                res, exc = call(lambda: kv & other)
            elif name == "ior":
                def f():
                    k = kv
                    k |= other
                    return k
                res, exc = call(f)
            else:
                def f():
                    k = kv
                    k &= other
                    return k
                res, exc = call(f)
            if list(other) != otherL:
                self.fail("operand-modified", name, f"step {self.step} {name}: right operand changed")
            return self.finish(kv, before, res, exc, verdict, expected, name, detail,
                               nonmut=name in ("or", "and"), allowed=(ValueError, TypeError, AssertionError))

        if name == "split":
            resolved = [resolve_node(s, U, lambda z: lib_value(z, sample)) for s in arg]
            nodes = [lib_value(z, sample) for z, _ in resolved]
            kinds = [k for _, k in resolved]
            res, exc = call(lambda: kv.split(nodes))
            if not self.same_list(kv, L0, p0):
                self.fail("operand-modified", "split", f"step {self.step} split changed the vector")
            if "nonnum" in kinds or "outside" in kinds:
                out.cls("split:invalid")
                if exc is None:
                    self.fail("invalid-request-accepted", "split-" + ("nonnum" if "nonnum" in kinds else "outside"),
                              f"step {self.step} split({nodes}) on {L0} returned {res}")
                self.rejected_seen = True
                return False
            out.cls("split:valid")
            if exc is not None:
                self.fail("valid-request-rejected", "split", f"step {self.step} split({nodes}) on {L0}: {type(exc).__name__} {exc}")
                return False
            cuts = sorted(set([U[0], U[-1]] + [z for z, _ in resolved]))
            if len(res) != len(cuts) - 1:
                self.fail("wrong-result", "split-count", f"step {self.step} split({nodes}) on {L0}: {len(res)} pieces, expected {len(cuts)-1}")
                return False
            for piece, lo, hi in zip(res, cuts[:-1], cuts[1:]):
                exp = [lo] * (p0 + 1) + [u for u in U if lo < u < hi] + [hi] * (p0 + 1)
                got = [oracle.frac(u) for u in piece]
                if got != exp:
                    self.fail("wrong-result", "split-piece", f"step {self.step} split({nodes}) on {L0}: piece {list(piece)}, expected {exp}")
                self.invariant(piece, f"piece of step {self.step} split")
            return False

        if name in ("copy", "deepcopy"):
            cp = _copy.copy(kv) if name == "copy" else _copy.deepcopy(kv)
            if cp is kv:
                self.fail("copy", "same-object", "copy returned the same object")
                return False
            if not self.same_list(cp, L0, p0):
                self.fail("copy", "differs", f"step {self.step} {name}: copy {list(cp)} differs from {L0}")
            resolved = [resolve_node(s, U, lambda z: lib_value(z, sample)) for s in arg]
            nodes = [lib_value(z, sample) for z, k in resolved if k == "interior"]
            try:
                cp.insert(nodes)
                cp.shift(lib_value(F(1), sample))
            except Exception:
                pass
            if not self.same_list(kv, L0, p0):
                self.fail("copy", "not-independent", f"step {self.step}: mutating the {name} changed the original to {list(kv)}")
            self.invariant(cp, f"mutated {name} at step {self.step}")
            return False
        raise lib.HarnessError(f"unknown op {name}")

    def finish(self, kv, before, res, exc, verdict, expected, name, detail, nonmut=False,
               allowed=(ValueError, TypeError, AssertionError)):
        L0, p0 = before
        if nonmut:
            if not self.same_list(kv, L0, p0):
                self.fail("operand-modified", name, f"step {self.step} {name}: operand changed to {list(kv)}")
            if exc is None:
                self.settle(res, before, res, None, verdict, expected, name, detail, allowed)
                self.invariant(res, f"result of step {self.step} {name}")
                if res is kv:
                    self.fail("identity", name, f"step {self.step} {name} returned the operand itself")
            else:
                self.settle(kv, before, None, exc, verdict, expected, name, detail, allowed)
            return False
        if exc is None and res is not kv and name not in ("degree",):
            self.fail("identity", name, f"step {self.step} {name} did not return the same instance")
        return self.settle(kv, before, res, exc, verdict, expected, name, detail, allowed)


def check_history(case, out):
    Machine(case, out).run()


def check_ctor(case, out):
    num = case["num"]
    L = list(case["L"])
    degree = case["degree"]
    bad = case["bad"]

    def cv(x):
        if num == "frac":
            return F(x)
        if num == "float":
            return float(x)
        return int(x) if F(x).denominator == 1 else F(x)
    arg = [cv(x) for x in L]
    U = [oracle.frac(x) for x in arg]
    klass = num
    if bad == "str-elem":
        arg = arg[: len(arg) // 2] + ["a"] + arg[len(arg) // 2:]
    elif bad == "none-elem":
        arg = arg + [None]
    elif bad == "nan-elem":
        arg = [float(x) for x in arg]
        arg = arg[: len(arg) // 2] + [float("nan")] + arg[len(arg) // 2:]
    elif bad == "nested":
        arg = [arg, arg]
    elif bad == "none":
        arg = None
    elif bad == "int":
        arg = 5
    elif case["container"] == "tuple":
        arg = tuple(arg)
    out.cls("num=" + num, "degree-arg" if degree is not None else "degree-inferred")
    out.nontrivial = len(L) >= 3 and bad is None
    try:
        kv = lib.KnotVector(arg) if degree is None else lib.KnotVector(arg, degree=degree)
        exc = None
    except Exception as e:
        if not lib.from_library(e) and not isinstance(e, (ValueError, TypeError)):
            raise
        exc = e
    if bad is not None:
        out.cls("ctor:non-numeric")
        if exc is None:
            out.fail("invalid-request-accepted", f"{klass};ctor-{bad}", f"KnotVector({arg!r}) accepted: {list(kv)}")
        elif not isinstance(exc, ValueError):
            out.fail("wrong-exception-type", f"{klass};ctor-{bad}",
                     f"KnotVector({arg!r}) raised {type(exc).__name__}, expected ValueError")
        return
    if len(U) == 0:
        p = None
        why = "empty"
    else:
        p = degree if degree is not None else oracle.infer_degree(U)
        why = oracle.wellformed(U, p)
    if why:
        out.cls("ctor:malformed", "malformed:" + why)
        if exc is None:
            out.fail("invalid-request-accepted", f"{klass};{why}",
                     f"KnotVector({arg!r}, degree={degree}) accepted although {why}; degree={kv.degree}")
        elif not isinstance(exc, ValueError):
            out.fail("wrong-exception-type", f"{klass};{why}",
                     f"KnotVector({arg!r}, degree={degree}) raised {type(exc).__name__}: {exc}; expected ValueError")
        return
    out.cls("ctor:wellformed")
    if exc is not None:
        out.fail("valid-request-rejected", f"{klass};ctor", f"KnotVector({arg!r}, degree={degree}) raised {type(exc).__name__}: {exc}")
        return
    if [oracle.frac(u) for u in kv] != U or kv.degree != p:
        out.fail("wrong-result", f"{klass};ctor", f"KnotVector({arg!r}) -> {list(kv)} degree {kv.degree}, expected degree {p}")
        return
    m = Machine({"num": "frac" if num != "float" else "float"}, out)
    m.step = 0
    m.invariant(kv, "constructed")


FACETS = [
    Facet("history-exact", lambda tier: histories("frac", 30 if tier == "quick" else 50), check_history,
          quick=800, thorough=6000, rule="Fraction knots; model predicts results exactly"),
    Facet("history-float", lambda tier: histories("float", 30 if tier == "quick" else 50), check_history,
          quick=400, thorough=3000, rule="float knots; model compared to 1e-11 relative then re-synchronised"),
    Facet("constructor", lambda tier: ctor_cases(), check_ctor, quick=6000, thorough=80000,
          rule="arbitrary small-alphabet lists with optional degree"),
]
