"""C14 - clean() reaches the unique minimal representation without changing the curve."""
from fractions import Fraction as F

from hypothesis import strategies as st

from .. import gen, lib, oracle
from ..oracle import State
from ..runner import Facet
from .c05 import sq_integral
from .c13 import build_from_state

RULE = ("a generated polynomial curve is reduced to its certified minimal form by the reference (oracle.minimal_form); "
        "the library then refines that minimal curve by a generated history of 1..5 knot_insert / degree_increase "
        "calls in any order and cleans it by a generated order of knot_clean / degree_clean / clean calls (default "
        "tolerance, explicit tolerances, or knot_clean given every knot, both ends and one non-knot explicitly); after every "
        "clean call: same function, idempotent; knot_clean / degree_clean leave nothing exactly removable; after "
        "clean(): knot vector and control points identical to the minimal form. Arbitrary (also rational) curves: "
        "function preserved, idempotent. Non-trivial: a history containing both an insertion and an elevation, or an "
        "arbitrary curve whose minimal form differs from its given form")
ASSUMPTIONS = [
    "minimal form computed exactly from derivative jumps and piece degrees (oracle.minimal_form)",
    "a removal the library accepts within its 1e-9 tolerance although it is not exact is not a failure: such cases "
    "(int (C-D)^2 <= 1e-6) are counted as excluded",
    "rational curves: only 'function preserved' and idempotence (the statement restricts minimality to polynomial curves)",
]


# the tolerance argument of the clean calls: the default, or an explicit legal value (0 asks for exact removals only)
TOLS = st.sampled_from(["default", "default", "default", "zero-int", "zero-frac", "zero-float", "tiny", "kw-zero",
                        "nodes-default", "nodes-zero"])
DEFAULT_TOLS = (None, "default", "nodes-default")  # the calls that run under the default tolerance 1e-9


def call_clean(curve, name, tol):
    fn = getattr(curve, name)
    if tol in (None, "default"):
        return fn()
    if tol == "kw-zero":
        return fn(tolerance=0)
    if tol in ("nodes-default", "nodes-zero"):
        # the documented explicit route: "Nodes equals to extremities are ignored", "Nodes which are not in
        # knotvectors are ignored" - every knot of the curve, both ends and one parameter that is not a knot must
        # clean exactly as the call without nodes does
        if name != "knot_clean":
            return fn() if tol == "nodes-default" else fn(0)
        knots = list(curve.knotvector.knots)
        nodes = knots + [(knots[0] + knots[1]) / 2]
        return fn(nodes) if tol == "nodes-default" else fn(nodes, 0)
    val = {"zero-int": 0, "zero-frac": F(0), "zero-float": 0.0, "tiny": F(1, 10 ** 30)}[tol]
    if name == "knot_clean":
        return fn(None, val)
    return fn(val)


@st.composite
def history_cases(draw):
    c = draw(gen.curves(0, 3, 3, nums=("frac",), rational=False))
    steps = []
    for _ in range(draw(st.integers(1, 5))):
        if draw(st.booleans()):
            steps.append(("insert", draw(st.lists(st.tuples(st.integers(0, 7), st.sampled_from(
                [None, F(1, 2), F(1, 3), F(3, 5)])), min_size=1, max_size=3))))
        else:
            steps.append(("elevate", draw(st.sampled_from([1, 1, 2]))))
    cleans = draw(st.lists(st.sampled_from(["knot_clean", "degree_clean", "clean"]), min_size=1, max_size=4))
    return {"curve": c, "steps": steps, "cleans": cleans, "tol": draw(TOLS),
            "nudge": draw(st.sampled_from([None, None, None, F(1, 10 ** 6), F(1, 10 ** 7)])),
            "kink": draw(st.sampled_from([None, None, None, (F(1, 100), 1), (F(1, 100), 1000), (F(1, 10), 10 ** 5),
                                          (F(1, 50), 30)]))}


def resolve_nodes(sels, U, p):
    bk = oracle.breaks(U)
    nodes = []
    cur = list(U)
    for idx, t in sels:
        if t is None and len(bk) > 2:
            z = bk[1:-1][idx % (len(bk) - 2)]
        else:
            i = idx % (len(bk) - 1)
            z = bk[i] + (bk[i + 1] - bk[i]) * (t or F(1, 2))
        if oracle.mult(cur, z) < p + 1:
            nodes.append(z)
            cur.append(z)
    return nodes


def removable_left(st_):
    """Is any single interior knot copy exactly removable (polynomial state)?"""
    for z in oracle.breaks(st_.U)[1:-1]:
        trial = list(st_.U)
        trial.remove(z)
        if oracle.in_space(st_, trial, st_.p):
            return z
    return None


def hom_removable_left(st_):
    """Rational state: is any single interior knot copy removable in homogeneous coordinates (numerator and weight
    function both in the smaller space, no vanishing weight)?  Such a knot is certainly 'exactly removable'."""
    for z in oracle.breaks(st_.U)[1:-1]:
        trial = list(st_.U)
        trial.remove(z)
        if oracle.represent_rational(st_, trial, st_.p) is not None:
            return z
    return None


def hom_degree_reducible(st_):
    if st_.p == 0:
        return False
    newU = []
    for z in oracle.breaks(st_.U):
        m = oracle.mult(st_.U, z) - 1
        if m < 0:
            return False
        newU += [z] * m
    return oracle.represent_rational(st_, newU, st_.p - 1) is not None


def degree_reducible(st_):
    if st_.p == 0:
        return False
    newU = []
    for z in oracle.breaks(st_.U):
        m = oracle.mult(st_.U, z) - 1
        if m < 0:
            return False
        newU += [z] * m
    return oracle.in_space(st_, newU, st_.p - 1)


def run_cleans(curve, ref, cleans, out, klass, minimal=None, tol=None):
    """Shared: run the clean calls, check function / idempotence / minimality."""
    lossy = False
    if tol in ("nodes-default", "nodes-zero"):
        out.cls("knot_clean-with-explicit-nodes")
    if tol not in DEFAULT_TOLS:
        out.cls("tolerance=" + tol)
        klass += ";explicit-tolerance"
    for name in cleans:
        call_clean(curve, name, tol)
        after = lib.state_of(curve)
        wit = oracle.same_function(ref, after)
        if wit is not None:
            # "never by more than the tolerance allows": k accepted fits of squared L2 error <= 2e-9 each add up to
            # at most (k * sqrt(2e-9))^2 (k over-estimated by the number of knots that disappeared)
            nfits = len(ref.U) - len(after.U) + 1
            allowed = nfits * nfits * 2 * F(1, 10 ** 9) * max(F(1), ref.U[-1] - ref.U[0])
            if tol in DEFAULT_TOLS and ref.w is None and after.w is None and sq_integral(ref, after) <= allowed:
                lossy = True
                out.exclude("tolerance-accepted-inexact-removal")
                return None
            if tol in DEFAULT_TOLS and ref.w is not None:
                # rational: weights constant to within the tolerance are dropped, a removal exact to within the
                # tolerance is accepted - allowed ("never by more than the tolerance allows")
                dev, _ = oracle.max_deviation(ref, after)
                if dev <= F(1, 10 ** 6) * max([abs(x) for pt in ref.P for x in pt] + [F(1)]):
                    out.exclude("tolerance-accepted-inexact-removal")
                    return None
            out.fail("function-changed", klass,
                     f"{name}() changed the curve U={ref.U} P={ref.P} w={ref.w}: at u={wit[0]} {wit[1]} -> {wit[2]} (now U={after.U})")
            return None
        call_clean(curve, name, tol)
        again = lib.state_of(curve)
        if again.key() != after.key():
            out.fail("not-idempotent", klass, f"second {name}() changed U={after.U} to {again.U}")
            return None
        if after.w is None:
            if name in ("knot_clean", "clean"):
                z = removable_left(after)
                if z is not None:
                    out.fail("removable-knot-left", klass,
                             f"after {name}() on U={ref.U} P={ref.P}: knot {z} of {after.U} is still exactly removable")
                    return None
            if name in ("degree_clean", "clean") and degree_reducible(after):
                out.fail("reducible-degree-left", klass,
                         f"after {name}() on U={ref.U} P={ref.P}: degree {after.p} of {after.U} is still exactly reducible")
                return None
        if after.w is not None:
            # rational curves: "every knot and every degree that is exactly removable" at least covers what is
            # removable in homogeneous coordinates
            if name in ("knot_clean", "clean"):
                z = hom_removable_left(after)
                if z is not None:
                    out.fail("removable-knot-left", klass,
                             f"after {name}() on rational U={ref.U} P={ref.P} w={ref.w}: knot {z} of {after.U} is still "
                             f"exactly removable (numerator and weight function both lie in the smaller space); w now {after.w}")
                    return None
            if name in ("degree_clean", "clean") and hom_degree_reducible(after):
                out.fail("reducible-degree-left", klass,
                         f"after {name}() on rational U={ref.U} P={ref.P} w={ref.w}: degree {after.p} of {after.U} is still "
                         f"exactly reducible in homogeneous coordinates; w now {after.w}")
                return None
        if name == "clean" and minimal is not None and after.w is None:
            Um, pm, Qm = minimal
            if after.U != Um or after.p != pm or after.P != Qm:
                out.fail("not-minimal-form", klass,
                         f"clean() gave U={after.U} degree {after.p} P={after.P}; minimal form is U={Um} degree {pm} P={Qm}")
                return None
    return lib.state_of(curve)


def check_history(case, out):
    raw = lib.case_state(case["curve"])
    Um, pm, Qm = oracle.minimal_form(raw)
    mini = State(Um, pm, Qm, None, raw.scalar)
    curve = build_from_state(mini)
    has_ins = has_elev = False
    ninserted = 0
    for kind, arg in case["steps"]:
        cur = lib.state_of(curve)
        if kind == "insert":
            nodes = resolve_nodes(arg, cur.U, cur.p)[: max(0, 6 - ninserted)]  # many small cases beat few large ones
            ninserted += len(nodes)
            if nodes:
                curve.knot_insert(nodes)
                has_ins = True
        else:
            if cur.p + arg <= 4:
                curve.degree_increase(arg)
                has_elev = True
    refined = lib.state_of(curve)
    if oracle.same_function(mini, refined) is not None:
        out.exclude("refinement-changed-function (C04/C06 territory)")
        return
    tolk = case.get("tol")
    if case.get("nudge") and tolk not in DEFAULT_TOLS + ("tiny",) and (has_ins or has_elev) and len(refined.P) >= 3:
        # nearly removable: one control point of the refined curve moved by 1e-6 / 1e-7 (removal errors far below
        # the default 1e-9).  With an explicit tolerance of zero every clean call must then leave the function
        # exactly as it is - whatever it removes, it may only remove what is exactly removable
        k = len(refined.P) // 2
        moved = [tuple(x + (case["nudge"] if i == k and j == 0 else 0) for j, x in enumerate(pt))
                 for i, pt in enumerate(refined.P)]
        curve.ctrlpoints = [pt[0] for pt in moved] if refined.scalar else lib.conv_points([list(pt) for pt in moved], "frac")
        nudged = lib.state_of(curve)
        out.cls("nearly-removable;tolerance=0")
        run_cleans(curve, nudged, case["cleans"], out, "history;nearly-removable", None, tolk)
        return
    if case.get("kink") and tolk in DEFAULT_TOLS and (has_ins or has_elev) and len(refined.P) >= 3:
        # a small kink on a curve of any size: every control point times M, then one of them moved by 1/100 .. 1/10.
        # Removing what the kink needs costs about kink^2, far above the default tolerance whatever M is: the clean
        # calls may change the function by what the tolerance allows and no more
        kink, M = case["kink"]
        k = len(refined.P) // 2
        moved = [tuple(x * M + (kink if i == k and j == 0 else 0) for j, x in enumerate(pt))
                 for i, pt in enumerate(refined.P)]
        curve.ctrlpoints = [pt[0] for pt in moved] if refined.scalar else lib.conv_points([list(pt) for pt in moved], "frac")
        kinked = lib.state_of(curve)
        out.cls("kink;default-tolerance", f"magnitude={M}")
        run_cleans(curve, kinked, case["cleans"], out, "history;kink", None, tolk)
        return
    out.cls("ins" if has_ins else "", "elev" if has_elev else "", "cleans=" + "+".join(case["cleans"]),
            f"pmin={pm}")
    out.nontrivial = has_ins and has_elev
    klass = "history;" + ("ins+elev" if has_ins and has_elev else "ins" if has_ins else "elev" if has_elev else "none")
    run_cleans(curve, mini, case["cleans"], out, klass, (Um, pm, Qm), case.get("tol"))
    # a differently refined copy must clean to the identical representation
    if not out.failures and not out.excluded and "clean" in case["cleans"]:
        other = build_from_state(mini)
        other.degree_increase(1)
        bk = oracle.breaks(Um)
        other.knot_insert([(bk[0] + bk[1]) / 2])
        other.clean()
        o = lib.state_of(other)
        if o.U != Um or o.p != pm or o.P != Qm:
            out.fail("not-unique", klass, f"another refinement of the same curve cleans to U={o.U} P={o.P}, not to U={Um} P={Qm}")


@st.composite
def rational_history_cases(draw):
    c = draw(gen.curves(0, 2, 2, nums=("frac",), rational=True, dim=draw(st.sampled_from([0, 0, 2]))))
    steps = []
    for _ in range(draw(st.integers(1, 3))):
        if draw(st.booleans()):
            steps.append(("insert", draw(st.lists(st.tuples(st.integers(0, 7), st.sampled_from(
                [None, F(1, 2), F(1, 3), F(3, 5)])), min_size=1, max_size=2))))
        else:
            steps.append(("elevate", 1))
    cleans = draw(st.lists(st.sampled_from(["knot_clean", "degree_clean", "clean"]), min_size=1, max_size=3))
    return {"curve": c, "steps": steps, "cleans": cleans, "tol": draw(TOLS)}


def check_rational_history(case, out):
    """A rational curve whose homogeneous representation is minimal, refined by the library and cleaned again."""
    base = lib.case_state(case["curve"])
    if hom_removable_left(base) is not None or hom_degree_reducible(base):
        out.exclude("base-curve-not-minimal-in-homogeneous-coordinates")
        return
    curve = lib.build_curve(case["curve"])
    has_ins = has_elev = False
    for kind, arg in case["steps"]:
        cur = lib.state_of(curve)
        if kind == "insert":
            nodes = resolve_nodes(arg, cur.U, cur.p)[:3]
            if nodes:
                curve.knot_insert(nodes)
                has_ins = True
        elif cur.p + arg <= 3:
            curve.degree_increase(arg)
            has_elev = True
    refined = lib.state_of(curve)
    if oracle.same_function(base, refined) is not None:
        out.exclude("refinement-changed-function (C04/C06 territory)")
        return
    neg = all(x < 0 for x in base.w)
    out.cls("ins" if has_ins else "", "elev" if has_elev else "", "cleans=" + "+".join(case["cleans"]),
            "weights-negative" if neg else "weights-positive")
    out.nontrivial = has_ins or has_elev
    klass = "rational-history;" + ("ins+elev" if has_ins and has_elev else "ins" if has_ins else "elev" if has_elev else "none")
    after = run_cleans(curve, base, case["cleans"], out, klass, None, case.get("tol"))
    if after is None or out.failures or out.excluded:
        return
    if "clean" in case["cleans"] or ("knot_clean" in case["cleans"] and "degree_clean" in case["cleans"] and not has_elev):
        # (the library may do better than homogeneous coordinates - e.g. a piecewise constant 5|5|12 with weights
        # 8|1|1/2 loses the knot between the two fives - so only "not larger than the base" is asserted)
        if "clean" in case["cleans"] and (after.p > base.p or len(after.U) - after.p > len(base.U) - base.p):
            out.fail("not-minimal-form", klass,
                     f"rational curve U={base.U} w={base.w} refined to {refined.U} cleans to {after.U} (degree {after.p}), "
                     f"which is larger than the representation it started from")


@st.composite
def arbitrary_cases(draw, nums=("frac",)):
    c = draw(gen.curves(0, 3, 3, nums=nums, rational=draw(st.integers(0, 3)) == 0,
                        values=st.sampled_from([F(0), F(1), F(1), F(2), F(-1), F(1, 2), F(3)])))
    cleans = draw(st.lists(st.sampled_from(["knot_clean", "degree_clean", "clean"]), min_size=1, max_size=3))
    return {"curve": c, "cleans": cleans, "tol": draw(TOLS)}


@st.composite
def special_cases(draw):
    Ulow, plow = draw(gen.knotvectors(0, 2, 2))
    t = draw(st.integers(0, 1))
    Uhigh = oracle.elevated_vector(Ulow, plow, t)
    bk = gen.breaks_of(Ulow)
    if draw(st.booleans()):
        z = (bk[0] + bk[1]) / 2
        Uhigh = sorted(Uhigh + [z])
    c, kind = draw(gen.special_rational(Ulow, plow, Uhigh, plow + t, function_kinds=True))
    cleans = draw(st.lists(st.sampled_from(["knot_clean", "degree_clean", "clean"]), min_size=1, max_size=3))
    return {"curve": c, "cleans": cleans, "special": kind, "tol": draw(TOLS)}


def check_arbitrary(case, out):
    c = case["curve"]
    ref = lib.case_state(c)
    curve = lib.build_curve(c)
    kind = "rational" if ref.w is not None else "polynomial"
    minimal = None
    if ref.w is None:
        minimal = oracle.minimal_form(ref)
        differs = minimal[0] != ref.U
        out.cls("already-minimal" if not differs else "reducible")
        out.nontrivial = differs
    else:
        out.nontrivial = len(oracle.breaks(ref.U)) > 2
    out.cls(kind, "cleans=" + "+".join(case["cleans"]))
    if case.get("special"):
        out.cls("special=" + case["special"])
    run_cleans(curve, ref, case["cleans"], out, "arbitrary;" + kind + (";" + case["special"] if case.get("special") else ""), minimal,
               case.get("tol"))


def check_float(case, out):
    c = case["curve"]
    ref = lib.case_state(c)
    curve = lib.build_curve(c)
    kind = "rational" if ref.w is not None else "polynomial"
    out.cls(kind, "cleans=" + "+".join(case["cleans"]))
    out.nontrivial = len(oracle.breaks(ref.U)) > 2
    L = max(F(1), ref.U[-1] - ref.U[0])
    for name in case["cleans"]:
        getattr(curve, name)()
        after = lib.state_of(curve)
        if ref.w is None and after.w is None:
            dev2 = sq_integral(ref, after)
            removed = (len(ref.U) - len(after.U)) + 1
            if dev2 > 2 * F(1, 10 ** 9) * L * removed * 4 + F(1, 10 ** 12):
                out.fail("function-changed", "float;" + kind,
                         f"{name}() on U={ref.U} P={ref.P}: int (C-D)^2 = {float(dev2):.3e}")
                return
        else:
            dev, where = oracle.max_deviation(ref, after)
            if dev > F(1, 1000):
                out.fail("function-changed", "float;" + kind, f"{name}() on rational U={ref.U}: deviation {float(dev):.3e}")
                return


FACETS = [
    Facet("history", lambda tier: history_cases(), check_history, quick=220, thorough=3500,
          rule="minimal curve -> library refinement history -> clean calls -> identical minimal form", case_timeout=120),
    Facet("arbitrary", lambda tier: arbitrary_cases(), check_arbitrary, quick=260, thorough=4000,
          rule="arbitrary curves (small value alphabet so that reducible ones occur): preserved, idempotent, minimal"),
    Facet("float", lambda tier: arbitrary_cases(("float",)), check_float, quick=120, thorough=2000,
          rule="float data: function preserved within the tolerance bound"),
    Facet("history-rational", lambda tier: rational_history_cases(), check_rational_history, quick=200, thorough=2500,
          rule="rational curve minimal in homogeneous coordinates -> library refinement history -> clean calls -> nothing "
               "removable in homogeneous coordinates is left, clean() restores the knot vector", case_timeout=120),
    Facet("rational-special", lambda tier: special_cases(), check_arbitrary, quick=320, thorough=3500,
          rule="rational curves whose weight function alone / numerator alone / constant weights are reducible, and curves "
               "that are piecewise constant as functions under arbitrary weights (reducible as a function only)",
          case_timeout=120),
]
