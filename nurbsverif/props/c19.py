"""C19 - Projection returns nearest-point parameters."""
import math
from fractions import Fraction as F

import numpy as np
from hypothesis import strategies as st

from .. import gen, lib, oracle
from ..oracle import State
from ..runner import Facet
from .c09 import exact_derivative

RULE = ("polylines (degree 1, 1..8 segments, 2-D/3-D float points on a 1/4 grid, non-uniform float knots, C0 knots and "
        "jumps) and query points on a coarse grid, on the curve, at vertices and equidistant from two segments: the "
        "returned parameters must be a non-empty sorted tuple inside the interval whose distances agree to 1e-6 and "
        "equal the exact minimum over all segments (exact rational geometry); general curves (Bezier / multi-span "
        "degree <= 3, rational arcs): termination within an evaluation bound, structural claims, stationarity, a point "
        "taken on the curve is projected onto itself. Non-trivial: >= 3 segments (polylines) or >= 2 spans / degree >= 2")
ASSUMPTIONS = [
    "termination is only bounded: more than 200000 curve evaluations or a NaN parameter is reported as non-termination",
    "global minimality is asserted for polylines only (the statement guarantees it there); measured for other curves",
    "exact point-segment distances in rational arithmetic on the float data (oracle.point_segment_dist2)",
]

EVAL_BOUND = 200000


class EvalBudget(BaseException):
    pass


class NanParameter(BaseException):
    pass


def guarded_projection(point, curve):
    """Run Projection.point_on_curve with an evaluation counter on Curve.eval."""
    from compmec.nurbs.advanced import Projection
    count = [0]
    orig = lib.Curve.eval

    def counting(self, nodes):
        count[0] += 1
        if count[0] > EVAL_BOUND:
            raise EvalBudget()
        try:
            if nodes != nodes:
                raise NanParameter()
        except (ValueError, TypeError):
            pass
        return orig(self, nodes)
    lib.Curve.eval = counting
    try:
        return Projection.point_on_curve(point, curve), count[0], None
    except EvalBudget:
        return None, count[0], "more than %d curve evaluations" % EVAL_BOUND
    except NanParameter:
        return None, count[0], "Newton iterate became NaN (the loop can never exit)"
    finally:
        lib.Curve.eval = orig


def quarter(v):
    return st.integers(-20, 20).map(lambda k: F(k, 4))


@st.composite
def polyline_cases(draw, degenerate=False):
    nseg = draw(st.integers(1, 8))
    dim = draw(st.sampled_from([2, 2, 3]))
    qkind = draw(st.sampled_from(["grid", "grid", "on-curve", "vertex", "equidistant", "near-vertex", "near-vertex",
                                  "foot-at-zero"]))
    a, b = draw(gen.intervals(zero_inside=True if qkind == "foot-at-zero" else None))
    grid = draw(st.sampled_from([8, 10, 12, 16, 30]))
    k = min(nseg - 1, grid - 1)
    js = sorted(draw(st.lists(st.integers(1, grid - 1), min_size=k, max_size=k, unique=True)))
    U = [a, a]
    for j in js:
        U += [a + (b - a) * F(j, grid)]  # simple knots: a polyline is continuous (with a jump the minimum need not be attained)
    U += [b, b]
    n = len(U) - 2
    P = []
    for i in range(n):
        pt = draw(st.lists(quarter(0), min_size=dim, max_size=dim))
        if P and pt == P[-1] and not degenerate:
            pt = [pt[0] + F(1, 2)] + pt[1:]
        P.append(pt)
    if degenerate and n >= 2:
        i = draw(st.integers(1, n - 1))
        P[i] = list(P[i - 1])
    q = draw(st.lists(st.integers(-12, 12).map(lambda v: F(v, 2)), min_size=dim, max_size=dim))
    scale = draw(st.sampled_from([F(1), F(1), F(1), F(10 ** 5), F(1, 10 ** 4), F(1000)]))
    U = [u * scale for u in U]
    # size of the geometry (powers of two keep the data exact); small geometry is not combined with short intervals
    g = draw(st.sampled_from([F(1), F(1), F(1), F(1, 64), F(128)])) if scale >= 1 else F(1)
    P = [[x * g for x in pt] for pt in P]
    q = [x * g for x in q]
    ptform = None
    if g >= 1 and draw(st.integers(0, 4)) == 0:
        # integer vertices handed over as an int64 array (the query point keeps its fractions)
        P2 = [[F(int(x)) for x in pt] for pt in P]
        if all(a != b for a, b in zip(P2[:-1], P2[1:])) or degenerate:
            P, ptform = P2, "int64"
    return {"U": U, "P": P, "qkind": qkind, "q": q, "t0": draw(st.integers(1, 31)), "pscale": scale, "gscale": g,
            "eps": draw(st.sampled_from([F(1, 2048), F(1, 4096), F(1, 1024), F(3, 8192)])),
            "off": draw(st.sampled_from([F(0), F(0), F(1, 4096), F(-1, 2048)])) * g,
            "vi": draw(st.integers(0, n - 1)), "num": draw(st.sampled_from(["float", "npfloat"])),
            "history": draw(st.integers(0, 3)) == 0, "ptform": ptform}


def build_polyline(case, use=None):
    """``use``: object history - the curve is first built with its control points in reverse order, handed to
    ``use`` (a projection / intersection), and only then given its control points through the public setter."""
    num = case["num"]
    U = [lib.conv_knot(u, num) for u in case["U"]]
    P = lib.conv_points(case["P"], num, case.get("ptform"))  # "int64": integral vertices as an int64 array
    wl = None if case.get("w") is None else [lib.conv_val(x, num) for x in case["w"]]
    if use is not None:
        curve = lib.Curve(U, lib.conv_points([[c + 1 for c in pt] for pt in case["P"][::-1]], num), wl)
        try:
            use(curve)
        except Exception as exc:
            if not lib.from_library(exc):
                raise
        curve.ctrlpoints = P
    else:
        curve = lib.Curve(U, P, wl)
    if case.get("ptform") == "int64" and use is not None:
        P = lib.conv_points(case["P"], num)  # the setter path keeps float vertices (decoy arithmetic needs them)
        curve.ctrlpoints = P
    ref = State([oracle.frac(u) for u in U], 1, [tuple(oracle.frac(x) for x in pt) for pt in P],
                None if wl is None else [oracle.frac(x) for x in wl], False)
    return curve, ref


def segments_of(ref):
    bk = oracle.breaks(ref.U)
    if ref.w is not None:
        # rational polyline (simple interior knots): the same straight segments between consecutive control points,
        # run through with a non-affine parametrisation
        return [(bk[i], bk[i + 1], ref.P[i], ref.P[i + 1]) for i in range(len(bk) - 1)]
    segs = []
    for lo, hi in zip(bk[:-1], bk[1:]):
        A = oracle.ceval(ref, lo)
        m = (lo + hi) / 2
        M = oracle.ceval(ref, m)
        B = tuple(2 * y - x for x, y in zip(A, M))
        segs.append((lo, hi, A, B))
    return segs


def check_common(out, klass, ts, ref, q, snap, curve):
    """Structural claims shared by all classes.  Returns list of exact squared distances or None."""
    if lib.snapshot(curve) != snap:
        out.fail("operand-modified", klass, "projection changed the curve")
    if not isinstance(ts, tuple) or len(ts) == 0:
        out.fail("empty-or-not-tuple", klass, f"returned {ts!r}")
        return None
    try:
        tf = [oracle.frac(float(t)) for t in ts]
    except Exception:
        out.fail("non-numeric-parameter", klass, f"returned {ts!r}")
        return None
    if any(math.isnan(float(t)) for t in ts):
        out.fail("nan-parameter", klass, f"returned {ts!r}")
        return None
    if any(t < ref.U[0] or t > ref.U[-1] for t in tf):
        out.fail("parameter-outside", klass, f"returned {ts} outside [{ref.U[0]}, {ref.U[-1]}]")
        return None
    if any(a > b for a, b in zip(tf[:-1], tf[1:])):
        out.fail("not-sorted", klass, f"returned {ts}")
    d2 = []
    for t in tf:
        c = oracle.ceval(ref, t)
        d2.append(sum((x - y) ** 2 for x, y in zip(c, q)))
    ds = [math.sqrt(float(x)) for x in d2]
    if max(ds) - min(ds) > 1e-6:
        out.fail("distances-disagree", klass, f"parameters {ts} are at distances {ds}")
    return d2


def check_polyline(case, out):
    from compmec.nurbs.advanced import Projection
    use = None
    if case.get("history"):
        # the object was used for a projection while it still had other control points
        out.cls("object-history")
        q0 = np.array([float(x) for x in case["q"]])
        use = lambda c: Projection.point_on_curve(q0, c)  # noqa: E731
    curve, ref = build_polyline(case, use)
    segs = segments_of(ref)
    dim = ref.dim
    qkind = case["qkind"]
    if qkind == "on-curve":
        lo, hi, A, B = segs[case["t0"] % len(segs)]
        s = F(case["t0"], 32)
        q = tuple(oracle.frac(float(a + s * (b - a))) for a, b in zip(A, B))
    elif qkind == "vertex":
        q = ref.P[case["vi"]]
    elif qkind == "near-vertex":
        # a point on (or a hair off) the curve very close to a vertex / end, but not at it
        lo, hi, A, B = segs[case["vi"] % len(segs)]
        s = case["eps"] if case["t0"] % 2 else 1 - case["eps"]
        base = [a + s * (b - a) for a, b in zip(A, B)]
        base[0] += case["off"]
        q = tuple(oracle.frac(float(x)) for x in base)
    elif qkind == "foot-at-zero" and any(lo < 0 < hi for lo, hi, _, _ in segs):
        # the point of the curve whose parameter is exactly 0 (strictly inside a span), moved along the normal
        lo, hi, A, B = [sg for sg in segs if sg[0] < 0 < sg[1]][0]
        s = (0 - lo) / (hi - lo)
        d = [b - a for a, b in zip(A, B)]
        nrm = [-d[1], d[0]] + [F(0)] * (dim - 2)
        h = F(case["t0"] % 3, 2)  # 0: on the curve, else off it
        q = tuple(a + s * dd + h * n for a, dd, n in zip(A, d, nrm))
    elif qkind == "equidistant" and len(segs) >= 2:
        # midpoint between the midpoints of two segments (often equidistant or near it)
        i = case["vi"] % (len(segs) - 1)
        m1 = tuple((a + b) / 2 for a, b in zip(segs[i][2], segs[i][3]))
        m2 = tuple((a + b) / 2 for a, b in zip(segs[i + 1][2], segs[i + 1][3]))
        q = tuple((a + b) / 2 for a, b in zip(m1, m2))
    else:
        q = tuple(case["q"])
    degenerate = any(A == B for _, _, A, B in segs)
    jump = any(oracle.mult(ref.U, z) == 2 for z in oracle.breaks(ref.U)[1:-1])
    out.cls("q=" + qkind, f"dim={dim}", "segments>=3" if len(segs) >= 3 else "segments<3",
            "param-scale=" + str(case.get("pscale", 1)), "geometry-scale=" + str(case.get("gscale", 1)),
            "degenerate-segment" if degenerate else "regular", "jump" if jump else "continuous")
    out.nontrivial = len(segs) >= 3
    klass = "polyline" + (";degenerate-segment" if degenerate else "") + (";jump" if jump else "")
    snap = lib.snapshot(curve)
    qlib = np.array([float(x) for x in q])
    ts, nev, stuck = guarded_projection(qlib, curve)
    if stuck:
        out.fail("no-termination-within-bound", klass,
                 f"point_on_curve({tuple(map(float, q))}) on polyline U={list(map(float, ref.U))} P={[tuple(map(float, p)) for p in ref.P]}: {stuck}")
        return
    d2 = check_common(out, klass, ts, ref, q, snap, curve)
    if d2 is None:
        return
    best = min(oracle.point_segment_dist2(q, A, B)[0] for _, _, A, B in segs)
    dmin = math.sqrt(float(best))
    # the statement allows the returned parameters to differ in distance by 1e-6 (checked above);
    # "that distance is the minimum" is decided on the best of them
    dret = math.sqrt(float(min(d2)))
    if dret - dmin > 1e-9 * max(1.0, dmin):
        out.fail("not-nearest", klass,
                 f"point_on_curve({tuple(map(float, q))}) on polyline U={list(map(float, ref.U))} "
                 f"P={[tuple(map(float, p)) for p in ref.P]} returned {ts} at distance {dret!r}; exact minimum {dmin!r}")
    if qkind in ("on-curve", "vertex") and dret > 1e-9:
        out.fail("on-curve-not-fixed", klass, f"point on the curve projected at distance {dret!r}")


@st.composite
def general_cases(draw):
    kind = draw(st.sampled_from(["spline", "spline", "arc"]))
    if kind == "arc":
        n = draw(st.sampled_from([1, 2]))  # quarter / half circle as rational quadratics
        r = draw(st.sampled_from([F(1), F(2), F(1, 2)]))
        return {"kind": kind, "quarters": n, "r": r, "cx": draw(quarter(0)), "cy": draw(quarter(0)),
                # the last piece may be the complementary (270 degree) arc of its control triangle: same points, the
                # middle weight negative (the weight function stays positive); it leaves the hull of its control points
                "complement": draw(st.integers(0, 2)) == 0,
                "qkind": draw(st.sampled_from(["grid", "on-curve"])), "t0": draw(st.integers(1, 31)),
                "q": draw(st.lists(st.integers(-8, 8).map(lambda v: F(v, 2)), min_size=2, max_size=2))}
    c = draw(gen.curves(2, 3, 2, nums=("float",), rational=False, dim=2,
                        values=st.integers(-16, 16).map(lambda v: F(v, 4))))
    # continuous curves only: where the curve jumps the minimum distance need not be attained
    U, p = c["U"], c["p"]
    keep, cnt = [], {}
    for u in U:
        cnt[u] = cnt.get(u, 0) + 1
        if u in (U[0], U[-1]) or cnt[u] <= p:
            keep.append(u)
    dropped = len(U) - len(keep)
    c["U"] = keep
    c["P"] = c["P"][: len(c["P"]) - dropped]
    return {"kind": kind, "curve": c, "qkind": draw(st.sampled_from(["grid", "on-curve"])),
            "elevate": draw(st.sampled_from([0, 0, 1, 2])),
            "t0": draw(st.integers(1, 31)),
            "q": draw(st.lists(st.integers(-8, 8).map(lambda v: F(v, 2)), min_size=2, max_size=2))}


def check_general(case, out):
    if case["kind"] == "arc":
        r, cx, cy = case["r"], case["cx"], case["cy"]
        s = math.sqrt(2) / 2
        if case["quarters"] == 1:
            U = [0., 0., 0., 1., 1., 1.]
            P = [(cx + r, cy), (cx + r, cy + r), (cx, cy + r)]
            w = [1., s, 1.]
        else:
            U = [0., 0., 0., .5, .5, 1., 1., 1.]
            P = [(cx + r, cy), (cx + r, cy + r), (cx, cy + r), (cx - r, cy + r), (cx - r, cy)]
            w = [1., s, 1., s, 1.]
        if case.get("complement"):
            w[-2] = -s
        curve = lib.Curve(U, np.array([[float(x) for x in p] for p in P]), w)
        klass = "arc" + (";complement" if case.get("complement") else "")
    else:
        curve = lib.build_curve(case["curve"])
        klass = "spline;p=%d" % case["curve"]["p"]
        if case.get("elevate"):
            # a reducible representation (degree-elevated by the reference): the operand must still come back untouched
            base = lib.state_of(curve)
            t = case["elevate"]
            big = oracle.refine_state(base, oracle.elevated_vector(base.U, base.p, t), base.p + t)
            curve = lib.Curve([float(u) for u in big.U], np.array([[float(x) for x in pt] for pt in big.P]))
            klass += ";elevated"
    ref = lib.state_of(curve)
    bk = oracle.breaks(ref.U)
    out.cls(klass, "q=" + case["qkind"], "multi-span" if len(bk) > 2 else "bezier")
    out.nontrivial = True
    if case["qkind"] == "on-curve":
        t0 = ref.U[0] + (ref.U[-1] - ref.U[0]) * F(case["t0"], 32)
        q = tuple(oracle.frac(float(x)) for x in oracle.ceval(ref, t0))
    else:
        q = tuple(case["q"])
    snap = lib.snapshot(curve)
    ts, nev, stuck = guarded_projection(np.array([float(x) for x in q]), curve)
    if stuck:
        out.fail("no-termination-within-bound", klass, f"point_on_curve({tuple(map(float, q))}) on U={list(map(float, ref.U))} "
                 f"P={[tuple(map(float, p)) for p in ref.P]} w={ref.w}: {stuck}")
        return
    d2 = check_common(out, klass, ts, ref, q, snap, curve)
    if d2 is None:
        return
    dret = math.sqrt(float(min(d2)))
    if case["qkind"] == "on-curve" and dret > 1e-6:
        out.fail("on-curve-not-fixed", klass,
                 f"a point taken on the curve (U={list(map(float, ref.U))} P={[tuple(map(float, p)) for p in ref.P]} w={ref.w}) "
                 f"is projected at distance {dret!r} (parameters {ts})")
    # stationarity of interior non-knot parameters
    for t in ts:
        tf = oracle.frac(float(t))
        if tf in bk or tf <= ref.U[0] or tf >= ref.U[-1]:
            continue
        if any(abs(tf - z) < F(1, 10 ** 6) for z in bk):
            continue
        k = max(i for i, z in enumerate(bk[:-1]) if z <= tf)
        lo, hi = bk[k], bk[k + 1]
        dC = exact_derivative(ref, lo, hi, [(tf - lo) / (hi - lo)])[0]
        C = oracle.ceval(ref, tf)
        val = float(sum(a * (b - c) for a, b, c in zip(dC, C, q)))
        n2 = float(sum(a * a for a in dC))
        if abs(val) > 1e-5 * (1 + n2) * max(1.0, dret):
            out.fail("not-stationary", klass, f"returned interior parameter {t}: <C', C-P> = {val!r} (|C'|^2 = {n2!r})")
    # "that distance is the minimum": a dense exact sampling (16 points per span, knots included) must not contain
    # a clearly closer point (curved pieces: 1e-4, relative for large distances)
    samples = []
    for lo, hi in zip(bk[:-1], bk[1:]):
        samples += [lo + (hi - lo) * F(i, 16) for i in range(17)]
    best, ubest = min((sum((x - y) ** 2 for x, y in zip(oracle.ceval(ref, u), q)), u) for u in samples)
    jump = any(oracle.mult(ref.U, z) > ref.p for z in bk[1:-1])  # with a jump the minimum need not be attained (FA-9)
    if not jump and math.sqrt(float(best)) < dret - 1e-4 * max(1.0, dret):
        out.fail("not-nearest", klass + ";curved",
                 f"point_on_curve({tuple(map(float, q))}) on U={list(map(float, ref.U))} P={[tuple(map(float, p)) for p in ref.P]} "
                 f"w={ref.w} returned {ts} at distance {dret!r}, but C({float(ubest)}) is at distance {math.sqrt(float(best))!r}")


FACETS = [
    Facet("polyline", lambda tier: polyline_cases(False), check_polyline, quick=1800, thorough=15000,
          rule="guaranteed class: exact nearest point on polylines"),
    Facet("polyline-degenerate", lambda tier: polyline_cases(True), check_polyline, quick=600, thorough=2000,
          rule="polylines with two coincident consecutive control points"),
    Facet("general", lambda tier: general_cases(), check_general, quick=600, thorough=5000,
          rule="Bezier / spline / arc: structural claims, stationarity, on-curve points"),
]
