"""C02 - basis functions obey the Cox-de Boor definition for every index and sub-degree."""
from fractions import Fraction as F

import numpy as np
from hypothesis import strategies as st

from .. import gen, lib, oracle
from ..runner import Facet

RULE = ("knot vectors (degree 0..5, <=4 distinct interior knots, multiplicities 1..p+1, non-uniform), "
        "positive weights in ~40%; for every j in 0..p the whole table f[:, j] at every knot, end and 2 "
        "interior points per span (sequence call + scalar calls), plus drawn (i, j) pairs with negative "
        "indices and slices; independent invariants (>=0, support, sum to one). Non-trivial: p >= 1 "
        "(so j < p exists) or a repeated interior knot; every case evaluates at knots")
ASSUMPTIONS = [
    "oracle: own Cox-de Boor recursion (exact); N_{i,j} indexed as in the textbook, i in 0..npts-1",
    "float profile tolerance 1e-9 absolute (values are in [0,1])",
]


@st.composite
def cases(draw, nums, pmax=5, kmax=4):
    U, p = draw(gen.knotvectors(0, pmax, kmax))
    n = len(U) - p - 1
    w = draw(gen.pos_weights(n)) if draw(st.integers(0, 4)) < 2 else None
    # weights are homogeneous: W(u*) exactly 1 at one evaluated parameter; a common factor down to 1e-12 / up to 1e9
    w = draw(gen.unit_weight_function(U, w, 2))
    w = draw(gen.weight_magnitude({"w": w}, wide=True))["w"]
    num = draw(st.sampled_from(list(nums)))
    pairs = draw(st.lists(st.tuples(st.integers(-n, n - 1), st.integers(0, p)),
                          min_size=1, max_size=4))
    slices = draw(st.lists(st.tuples(
        st.one_of(st.none(), st.integers(-n - 1, n + 1)),
        st.one_of(st.none(), st.integers(-n - 1, n + 1)),
        st.sampled_from([None, None, 1, 2, -1, -2])), min_size=1, max_size=2))
    sj = draw(st.integers(0, p))
    return {"U": U, "p": p, "w": w, "num": num, "pairs": pairs, "slices": slices, "sj": sj,
            "eval_before_weights": draw(st.booleans()),
            "order": draw(st.sampled_from(lib.SEQ_ORDERS)),
            "repeats": draw(st.sampled_from([None, None, None, "mirror", "some"])),
            "form": draw(st.sampled_from(["tuple", "tuple", "list", "gen", "iter", "map"])),
            "reject_first": draw(st.sampled_from([None, None, None, "negative", "zero", "length"]))}


def as_frac_seq(x):
    return [oracle.frac(v) for v in x]


def check(case, out):
    num = case["num"]
    exact = lib.is_exact(num)
    p = case["p"]
    Ulib = [lib.conv_knot(u, num) for u in case["U"]]
    U = [oracle.frac(u) for u in Ulib]
    n = len(U) - p - 1
    wlib = None if case["w"] is None else [lib.conv_val(x, num) for x in case["w"]]
    w = None if wlib is None else [oracle.frac(x) for x in wlib]
    bk = oracle.breaks(U)
    interior = bk[1:-1]
    rep = any(oracle.mult(U, z) >= 2 for z in interior)
    out.cls("num=" + num, "p=0" if p == 0 else "p>=1")
    if rep:
        out.cls("repeated-interior-knot")
    if interior:
        out.cls("interior-knot")
    if w is not None:
        out.cls("rational")
    out.nontrivial = p >= 1 or rep
    klass = ("rational" if w is not None else "polynomial") + (";exact" if exact else ";float")
    tol = F(1, 10 ** 9)

    f = lib.Function(Ulib)
    if case.get("eval_before_weights"):
        # history on one object: evaluate, then change the weights, then evaluate again
        out.cls("evaluated-before-weights")
        mid = (Ulib[0] + Ulib[-1]) / 2
        f(mid)
        f[:, p](mid)
        if wlib is not None:
            f.weights = [x + x for x in wlib]
            f(mid)
    if wlib is not None:
        f.weights = wlib
    if case.get("reject_first"):
        # history: a weights assignment that must be rejected (non-positive entry / wrong length) comes first;
        # the function must keep evaluating with the weights that were in force before
        out.cls("rejected-weights-first")
        badw = [lib.conv_val(F(1), num)] * n
        if case["reject_first"] == "negative" and n >= 1:
            badw[n // 2] = lib.conv_val(F(-3), num)
        elif case["reject_first"] == "zero":
            badw[0] = lib.conv_val(F(0), num)
        else:
            badw = badw + [lib.conv_val(F(2), num)]
        try:
            f.weights = badw
            out.fail("invalid-weights-accepted", klass, f"weights {badw} accepted for npts={n}")
        except ValueError:
            pass
    # the nodes of the multi-node calls: in any order, in any accepted sequence form (one-shot iterables included)
    params = lib.with_repeats(lib.reorder(gen.params_of(case["U"], 2, gen.NEAR), case.get("order", "given")), case.get("repeats"))
    out.cls("order=" + case.get("order", "given"), "form=" + case.get("form", "tuple"))

    def nodeseq():
        return lib.seq_form(lparams, case.get("form", "tuple"))
    lparams = [F(u) if exact else lib.conv_knot(u, num) for u in params]
    fparams = [oracle.frac(u) for u in lparams]

    def table(j):
        return [[oracle.basis_row(U, p, j, u, w)[i] for u in fparams] for i in range(n)]

    def cmp_num(got, ref, where, clause="value"):
        if exact:
            bad = lib.inexact_leaf(got)
            if bad is not None:
                out.fail("exact-type", klass, f"{where}: {type(bad).__name__} {bad!r}")
                return False
            if oracle.frac(got) != ref:
                out.fail(clause, klass, f"{where}: got {got}, Cox-de Boor gives {ref}")
                return False
        else:
            if abs(oracle.frac(got) - ref) > tol:
                out.fail(clause, klass, f"{where}: got {got!r}, Cox-de Boor gives {float(ref)!r}")
                return False
        return True

    def cmp_rows(got, ref_rows, where):
        try:
            got = list(got)
        except TypeError:
            out.fail("shape", klass, f"{where}: expected {len(ref_rows)} rows, got scalar {got!r}")
            return
        if len(got) != len(ref_rows):
            out.fail("shape", klass, f"{where}: expected {len(ref_rows)} rows, got {len(got)}")
            return
        for r, (grow, rrow) in enumerate(zip(got, ref_rows)):
            try:
                grow = list(grow)
            except TypeError:
                out.fail("shape", klass, f"{where}: row {r} is not a sequence")
                return
            if len(grow) != len(rrow):
                out.fail("shape", klass, f"{where}: row {r} has {len(grow)} values, expected {len(rrow)}")
                return
            for k, (g, rf) in enumerate(zip(grow, rrow)):
                if not cmp_num(g, rf, f"{where} row {r} col {k}"):
                    return

    tables = {}
    for j in range(p + 1):
        T = tables[j] = table(j)
        ev = f[:, j]
        got = ev(nodeseq())
        cmp_rows(got, T, f"f[:, {j}](seq)")
        # independent invariants on the returned values
        try:
            G = [[oracle.frac(v) for v in row] for row in got]
        except Exception:
            G = None
        if G is not None and len(G) == n and all(len(r) == len(fparams) for r in G):
            for k, u in enumerate(fparams):
                col = [G[i][k] for i in range(n)]
                for i, v in enumerate(col):
                    if v < (0 if exact else -tol):
                        out.fail("negative", klass, f"f[{i},{j}]({u}) = {v} < 0")
                        break
                    if (u < U[i] or u > U[i + j + 1]) and abs(v) > (0 if exact else tol):
                        out.fail("support", klass, f"f[{i},{j}]({u}) = {v} outside [{U[i]},{U[i+j+1]}]")
                        break
                if j == p:
                    s = sum(col)
                    if (s != 1) if exact else (abs(s - 1) > tol):
                        out.fail("partition", klass, f"sum_i f[i,{p}]({u}) = {s}")
        # scalar calls: column at a few nodes
        for k in (0, len(lparams) // 2, len(lparams) - 1):
            col = ev(lparams[k])
            cmp_rows([col], [[T[i][k] for i in range(n)]], f"f[:, {j}]({lparams[k]})")
    # f(u) is f[:, p](u)
    got = f(nodeseq())
    cmp_rows(got, tables[p], "f(seq)")
    got = f(lparams[-1])
    cmp_rows([got], [[tables[p][i][-1] for i in range(n)]], "f(umax)")
    # (i, j) pairs, negative indices
    for i, j in case["pairs"]:
        T = tables[j]
        row = T[i]  # python semantics for negative i
        got = f[i, j](nodeseq())
        cmp_rows([got], [row], f"f[{i},{j}](seq)")
        k = (i * 7 + j) % len(lparams)
        gs = f[i, j](lparams[k])
        if lib.is_scalar_point(gs):
            cmp_num(gs, row[k], f"f[{i},{j}]({lparams[k]})")
        else:
            out.fail("shape", klass, f"f[{i},{j}](scalar) returned a sequence")
        if j == p:
            got = f[i](nodeseq())
            cmp_rows([got], [row], f"f[{i}](seq)")
    # slices
    sj = case["sj"]
    for a, b, s in case["slices"]:
        sl = slice(a, b, s)
        ref_rows = tables[sj][sl]
        got = f[sl, sj](nodeseq())
        cmp_rows(got, ref_rows, f"f[{a}:{b}:{s},{sj}](seq)")
        if sj == p:
            got = f[sl](nodeseq())
            cmp_rows(got, tables[p][sl], f"f[{a}:{b}:{s}](seq)")
    # index errors: must not silently return a table row
    for idx in ((n, p), (-n - 1, p), (0, p + 1), (0, -1)):
        try:
            f[idx]
        except (IndexError, TypeError):
            continue
        out.fail("index-not-rejected", klass, f"f[{idx}] accepted on npts={n}, degree={p}")
    for idx in ((F(1, 2), p), (0, F(1, 2)), ("a", 0)):
        try:
            f[idx]
        except (IndexError, TypeError):
            continue
        out.fail("index-not-rejected", klass, f"f[{idx!r}] accepted")
    # outside parameter
    uo = bk[-1] + 1
    try:
        f[:, p](uo if exact else float(uo))
        out.fail("outside-no-error", klass, f"f[:, p]({uo}) returned a value")
    except ValueError:
        pass
    if list(f.knotvector) != Ulib:
        out.fail("operand-modified", klass, "evaluation changed the knot vector")


    # a sequence holding exactly one node keeps its node axis: rows of length one (not bare numbers)
    k1 = len(lparams) // 2
    for form in ("list", "tuple"):
        one = [lparams[k1]] if form == "list" else (lparams[k1],)
        col = table(p)
        for label, got1, want in ((f"f({form} of one node)", f(one), [[col[i][k1]] for i in range(n)]),
                                  (f"f[:, {p}]({form} of one node)", f[:, p](one), [[col[i][k1]] for i in range(n)]),
                                  (f"f[0, {p}]({form} of one node)", f[0, p](one), [col[0][k1]])):
            try:
                rows = [list(r) for r in got1] if label.startswith(("f(", "f[:")) else list(got1)
            except TypeError:
                out.fail("shape", klass + ";one-node-sequence", f"{label} at {lparams[k1]} returned {got1!r}: the node axis is gone")
                break
            flat_got = [oracle.frac(x) for x in lib.walk_numbers(rows)]
            flat_want = [oracle.frac(x) for x in lib.walk_numbers(want)]
            shape_ok = (len(rows) == len(want)) and all(
                (not isinstance(w_, list)) or len(r_) == len(w_) for r_, w_ in zip(rows, want))
            if not shape_ok or len(flat_got) != len(flat_want):
                out.fail("shape", klass + ";one-node-sequence", f"{label} at {lparams[k1]} returned {got1!r}: not one entry per node")
                break
            if any(abs(a_ - b_) > tol for a_, b_ in zip(flat_got, flat_want)):
                out.fail("value", klass + ";one-node-sequence", f"{label} at {lparams[k1]}: got {got1!r}")
                break

FACETS = [
    Facet("exact", lambda tier: cases(("frac",), pmax=5 if tier == "thorough" else 4,
                                      kmax=4 if tier == "thorough" else 3),
          check, quick=1600, thorough=16000, rule="Fraction profile, exact equality"),
    Facet("float", lambda tier: cases(("float", "npfloat"), pmax=4, kmax=3),
          check, quick=700, thorough=6000, rule="float profile, 1e-9"),
]
