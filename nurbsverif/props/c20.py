"""C20 - Intersection returns exactly the parameter pairs where the curves meet."""
import math
from fractions import Fraction as F

import numpy as np
from hypothesis import strategies as st

from .. import gen, lib, oracle
from ..oracle import State
from ..runner import Facet
from .c19 import build_polyline, segments_of

RULE = ("pairs of planar segments and polylines (1..4 segments each, half-integer float coordinates, non-uniform "
        "float knots) classified exactly by rational geometry into transversal crossings (parameters >= 1e-3 away from "
        "segment ends, |sin angle| >= 0.05), disjoint with disjoint boxes, disjoint with overlapping boxes (distance "
        ">= 1e-2) and degenerate (touching / parallel / near an end: soundness only); plus Bezier (degree <= 3) pairs "
        "and rational arcs for soundness. Guaranteed classes: the returned set must equal the exact crossing set, () "
        "when disjoint. Non-trivial: the bounding boxes of the two curves overlap")
ASSUMPTIONS = [
    "exact segment-segment intersection in rational arithmetic on the float data (oracle.segment_intersection)",
    "completeness is asserted only for transversal crossings of straight segments / polylines",
    "soundness: every returned pair lies in both intervals and |A(t)-B(u)| <= 1e-6 (reference evaluation)",
]


def half(lo=-8, hi=8):
    return st.integers(lo * 2, hi * 2).map(lambda k: F(k, 2))


@st.composite
def polyline(draw, maxseg):
    nseg = draw(st.integers(1, maxseg))
    a, b = draw(st.sampled_from([(F(0), F(1)), (F(0), F(1)), (F(-1), F(2)), (F(1, 3), F(7, 3))]))
    grid = draw(st.sampled_from([4, 10, 12]))
    js = sorted(draw(st.lists(st.integers(1, grid - 1), min_size=nseg - 1, max_size=nseg - 1, unique=True)))
    U = [a, a] + [a + (b - a) * F(j, grid) for j in js] + [b, b]
    P = []
    for _ in range(nseg + 1):
        pt = [draw(half(-5, 5)), draw(half(-5, 5))]
        if P and pt == P[-1]:
            pt = [pt[0] + 1, pt[1]]
        P.append(pt)
    w = None
    if draw(st.integers(0, 3)) == 0:
        # a rational polyline: same segments, non-affine parametrisation
        w = [draw(st.sampled_from([F(1), F(2), F(3), F(1, 2), F(5), F(1, 3)])) for _ in P]
    return {"U": U, "P": P, "w": w}


@st.composite
def polyline_pairs(draw, maxseg=4):
    A = draw(polyline(maxseg))
    B = draw(polyline(maxseg))
    if draw(st.integers(0, 9)) == 0:
        # push B far away: disjoint boxes
        B["P"] = [[x + 40, y] for x, y in B["P"]]
    num = draw(st.sampled_from(["float", "npfloat"]))
    A["num"] = B["num"] = num
    # numeric regimes: the size of the geometry and the speed of each parametrisation (powers of two / ten that
    # keep the data exactly representable); the smallest geometry is not combined with the shortest intervals
    g = draw(st.sampled_from([F(1), F(1), F(1), F(1, 64), F(1, 8), F(128)]))
    pa = draw(st.sampled_from([F(1), F(1), F(64), F(1, 64) if g >= F(1, 8) else F(1)]))
    pb = draw(st.sampled_from([F(1), F(1), F(64), F(1, 64) if g >= F(1, 8) else F(1)]))
    if A["w"] is not None or B["w"] is not None:
        g, pa, pb = F(1), F(1), F(1)  # rational polylines: Newton is no longer exact in one step; keep the plain regime
    for C, ps in ((A, pa), (B, pb)):
        C["P"] = [[x * g, y * g] for x, y in C["P"]]
        C["U"] = [u * ps for u in C["U"]]
    return {"A": A, "B": B, "elevate": draw(st.sampled_from([0, 0, 0, 1])), "gscale": g, "pscale": (pa, pb),
            "history": draw(st.integers(0, 3)) == 0,
            "noise": draw(st.sampled_from([0, 0, F(1, 2 ** 14), F(1, 2 ** 15), F(1, 2 ** 13)]))}


def boxes_overlap(PA, PB):
    for c in range(2):
        la, ha = min(p[c] for p in PA), max(p[c] for p in PA)
        lb, hb = min(p[c] for p in PB), max(p[c] for p in PB)
        if ha < lb or hb < la:
            return False
    return True


def soundness(out, klass, pairs, a, b, A, B, snapA, snapB):
    if lib.snapshot(A) != snapA or lib.snapshot(B) != snapB:
        out.fail("operand-modified", klass, "intersection changed an operand")
    if not isinstance(pairs, tuple):
        out.fail("not-a-tuple", klass, f"returned {type(pairs).__name__}")
        return None
    got = []
    for pr in pairs:
        try:
            t, u = (oracle.frac(float(pr[0])), oracle.frac(float(pr[1])))
        except Exception:
            out.fail("malformed-pair", klass, f"returned element {pr!r}")
            return None
        if not (a.U[0] <= t <= a.U[-1] and b.U[0] <= u <= b.U[-1]):
            out.fail("pair-outside", klass, f"pair {pr} outside the parameter intervals")
            return None
        pa, pb = oracle.ceval(a, t), oracle.ceval(b, u)
        d = math.sqrt(float(sum((x - y) ** 2 for x, y in zip(pa, pb))))
        if d > 1e-6:
            out.fail("pair-not-meeting", klass,
                     f"returned pair {tuple(map(float, (t, u)))} but |A(t)-B(u)| = {d!r} "
                     f"[A: U={list(map(float, a.U))} P={[tuple(map(float, p)) for p in a.P]} w={a.w}; "
                     f"B: U={list(map(float, b.U))} P={[tuple(map(float, p)) for p in b.P]} w={b.w}]")
            return None
        got.append((t, u))
    for i in range(len(got)):
        for j in range(i + 1, len(got)):
            # the library merges pairs closer than 1e-9 (Euclidean); near a tangential contact Newton leaves clusters
            # around that radius, so only pairs that coincide to 1e-12 are called duplicates
            if abs(got[i][0] - got[j][0]) <= F(1, 10 ** 12) and abs(got[i][1] - got[j][1]) <= F(1, 10 ** 12):
                out.fail("duplicate-pair", klass, f"pairs {pairs[i]} and {pairs[j]}")
                return None
    return got


def check_polylines(case, out):
    from compmec.nurbs.advanced import Intersection
    B, b = build_polyline(case["B"])
    use = None
    if case.get("history") and not case.get("elevate") and case["A"].get("w") is None:
        # A was intersected with B while it still had other control points, then re-assigned
        out.cls("object-history")
        use = lambda c: Intersection.curve_and_curve(c, B)  # noqa: E731
    A, a = build_polyline(case["A"], use)
    segA, segB = segments_of(a), segments_of(b)
    wA = [(F(1), F(1))] * len(segA) if a.w is None else list(zip(a.w[:-1], a.w[1:]))
    wB = [(F(1), F(1))] * len(segB) if b.w is None else list(zip(b.w[:-1], b.w[1:]))
    if a.w is not None or b.w is not None:
        out.cls("rational-polyline")

    def param(lo, hi, frac_, w0, w1):
        # parameter at which a rational degree-1 piece with end weights w0, w1 reaches the geometric fraction frac_
        tau = frac_ * w0 / (w1 * (1 - frac_) + frac_ * w0)
        return lo + tau * (hi - lo)
    if case.get("elevate") and a.w is None and b.w is None:
        # reducible representations: the same polylines degree-elevated by the reference model
        t = case["elevate"]
        out.cls("elevated-operands")
        ea = oracle.refine_state(a, oracle.elevated_vector(a.U, 1, t), 1 + t)
        eb = oracle.refine_state(b, oracle.elevated_vector(b.U, 1, t), 1 + t)
        noise = case.get("noise", 0)
        if noise:
            # nearly a polyline: one control point of the elevated representation moved by ~1e-4 (a piece that a
            # tolerance-based simplification reduces with a visible geometric error); soundness only from here on
            k = len(ea.P) // 2
            ea.P[k] = (ea.P[k][0], ea.P[k][1] + noise * case.get("gscale", F(1)))
            out.cls("nearly-reducible-operand")
        A = lib.Curve([float(u) for u in ea.U], np.array([[float(x) for x in pt] for pt in ea.P]))
        B = lib.Curve([float(u) for u in eb.U], np.array([[float(x) for x in pt] for pt in eb.P]))
        a, b = lib.state_of(A), lib.state_of(B)
    g = case.get("gscale", F(1))
    out.cls("geometry-scale=" + str(g), "param-scales=" + str(tuple(str(x) for x in case.get("pscale", (1, 1)))))
    exact = []
    degenerate = False
    mind2 = None
    for (loa, hia, A0, A1), (wa0, wa1) in zip(segA, wA):
        for (lob, hib, B0, B1), (wb0, wb1) in zip(segB, wB):
            kind, data = oracle.segment_intersection(A0, A1, B0, B1)
            if kind == "cross":
                s, t = data
                da, db = oracle.sub(A1, A0), oracle.sub(B1, B0)
                sin2 = oracle.cross2(da, db) ** 2 / (oracle.dot(da, da) * oracle.dot(db, db))
                eps = F(1, 1000)
                if not (eps <= s <= 1 - eps and eps <= t <= 1 - eps) or sin2 < F(25, 10000):
                    degenerate = True
                exact.append((param(loa, hia, s, wa0, wa1), param(lob, hib, t, wb0, wb1)))
            elif kind == "parallel-overlap":
                degenerate = True
            else:
                mind2 = data if mind2 is None else min(mind2, data)
                if data < F(1, 10000) * g * g:
                    degenerate = True
    overlap = boxes_overlap(a.P, b.P)
    if degenerate:
        cls = "degenerate"
    elif exact:
        cls = "crossing"
    else:
        cls = "disjoint-boxes-overlap" if overlap else "disjoint-boxes-disjoint"
    out.cls("class=" + cls, f"segments={len(segA)}x{len(segB)}", f"crossings={min(len(exact), 3)}")
    out.nontrivial = overlap
    klass = f"polyline;{cls}" + (";multi" if len(segA) * len(segB) > 1 else ";single")
    snapA, snapB = lib.snapshot(A), lib.snapshot(B)
    desc = (f"[A: U={list(map(float, a.U))} P={[tuple(map(float, p)) for p in a.P]} w={None if a.w is None else list(map(float, a.w))}; "
            f"B: U={list(map(float, b.U))} P={[tuple(map(float, p)) for p in b.P]} w={None if b.w is None else list(map(float, b.w))}]")
    try:
        pairs = Intersection.curve_and_curve(A, B)
    except Exception as exc:
        if not lib.from_library(exc):
            raise
        out.fail("raises", klass + ";" + type(exc).__name__, f"curve_and_curve raised {type(exc).__name__}: {exc} {desc}")
        return
    got = soundness(out, klass, pairs, a, b, A, B, snapA, snapB)
    if got is None or cls == "degenerate":
        return
    if case.get("elevate") and case.get("noise") and a.w is None and b.w is None:
        return  # no longer a polyline: the exact crossings above do not apply
    if (a.w is not None or b.w is not None) and not cls.startswith("disjoint"):
        # rational straight pieces: the parametrisation is not affine, Newton is not exact in one step and the pinned
        # library itself loses such crossings (A=(1,3)->(-3.5,1) w=(2,1/2), B=(-4,1/2)->(0,7/2) w=(1,2) returns ()):
        # outside the class for which "every crossing, parameters correct to rounding" is stated; soundness only
        out.cls("rational-polyline:soundness-only")
        return
    if cls.startswith("disjoint"):
        if len(got) != 0 or pairs != ():
            out.fail("disjoint-not-empty", klass, f"curves do not meet (distance {math.sqrt(float(mind2)) if mind2 else '?'}) but returned {pairs} {desc}")
        return
    # rational pieces are found by an iteration that stops at a step of 1e-9: parameters to 1e-6 there
    rel = F(1, 10 ** 9) if (a.w is None and b.w is None) else F(1, 10 ** 6)
    tola = rel * max(F(1), a.U[-1] - a.U[0])
    tolb = rel * max(F(1), b.U[-1] - b.U[0])
    missing = [e for e in exact if not any(abs(e[0] - h[0]) <= tola and abs(e[1] - h[1]) <= tolb for h in got)]
    extra = [h for h in got if not any(abs(e[0] - h[0]) <= tola and abs(e[1] - h[1]) <= tolb for e in exact)]
    if missing:
        out.fail("crossing-missed", klass,
                 f"exact crossings {[tuple(map(float, e)) for e in exact]}, returned {[tuple(map(float, g)) for g in got]} {desc}")
    elif extra:
        out.fail("crossing-extra", klass,
                 f"exact crossings {[tuple(map(float, e)) for e in exact]}, returned {[tuple(map(float, g)) for g in got]} {desc}")


@st.composite
def curved_pairs(draw):
    kind = draw(st.sampled_from(["bezier", "bezier", "arcs"]))
    if kind == "arcs":
        return {"kind": kind, "dx": draw(half(-3, 3)), "dy": draw(half(-3, 3)),
                "r": draw(st.sampled_from([F(1), F(2), F(3, 2)]))}
    vals = st.integers(-12, 12).map(lambda v: F(v, 2))
    ia = draw(st.sampled_from([(F(0), F(1)), (F(0), F(1)), (F(-1), F(1)), (F(2), F(5)), (F(-3), F(-1, 2))]))
    ib = draw(st.sampled_from([(F(0), F(1)), (F(0), F(1)), (F(-2), F(0)), (F(1, 3), F(7, 3))]))
    A = draw(gen.curves(1, 3, 0, nums=("float",), rational=False, dim=2, values=vals, interval=ia))
    B = draw(gen.curves(1, 3, 0, nums=("float",), rational=False, dim=2, values=vals, interval=ib))
    return {"kind": kind, "A": A, "B": B}


def check_curved(case, out):
    from compmec.nurbs.advanced import Intersection
    if case["kind"] == "arcs":
        s = math.sqrt(2) / 2
        U = [0., 0., 0., 1., 1., 1.]
        r = float(case["r"])
        PA = np.array([(1., 0.), (1., 1.), (0., 1.)])
        PB = np.array([(r + float(case["dx"]), float(case["dy"])), (r + float(case["dx"]), r + float(case["dy"])),
                       (float(case["dx"]), r + float(case["dy"]))])
        A = lib.Curve(U, PA, [1., s, 1.])
        B = lib.Curve(U, PB, [1., s, 1.])
        klass = "arcs"
    else:
        A, B = lib.build_curve(case["A"]), lib.build_curve(case["B"])
        klass = f"bezier;p={case['A']['p']}x{case['B']['p']}"
    a, b = lib.state_of(A), lib.state_of(B)
    overlap = boxes_overlap(a.P, b.P)
    out.cls(klass, "boxes-overlap" if overlap else "boxes-disjoint")
    out.nontrivial = overlap
    snapA, snapB = lib.snapshot(A), lib.snapshot(B)
    try:
        pairs = Intersection.curve_and_curve(A, B)
    except Exception as exc:
        if not lib.from_library(exc):
            raise
        out.fail("raises", klass + ";" + type(exc).__name__,
                 f"curve_and_curve raised {type(exc).__name__}: {exc} [A: P={[tuple(map(float, p)) for p in a.P]} w={a.w}; "
                 f"B: P={[tuple(map(float, p)) for p in b.P]} w={b.w}]")
        return
    got = soundness(out, klass, pairs, a, b, A, B, snapA, snapB)
    if got is not None and not overlap and len(got) != 0:
        out.fail("disjoint-not-empty", klass, f"control polygons have disjoint boxes but returned {pairs}")


FACETS = [
    Facet("segments", lambda tier: polyline_pairs(1), check_polylines, quick=700, thorough=7000,
          rule="pairs of straight segments", case_timeout=120),
    Facet("polylines", lambda tier: polyline_pairs(4), check_polylines, quick=500, thorough=5000,
          rule="pairs of polylines", case_timeout=120),
    Facet("curved", lambda tier: curved_pairs(), check_curved, quick=300, thorough=2500,
          rule="Bezier pairs and rational arcs: soundness", case_timeout=120),
]
