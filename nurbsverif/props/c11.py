"""C11 - fit_curve is the L2-orthogonal projection (with optional exact interpolation)."""
from fractions import Fraction as F

from hypothesis import strategies as st

from .. import gen, lib, oracle
from ..oracle import State
from ..runner import Facet
from .c13 import build_from_state, refinement

RULE = ("a polynomial source curve (degree 0..3) and a target knot vector on the same interval with independent "
        "degree and non-uniform knots: either a refinement of the source (built by the generator) or a generic vector; "
        "optionally interpolation nodes (<= npts of the target, full row rank verified exactly). Decided exactly: "
        "residual orthogonal to every target basis function (or to the null space of the constraints), interpolation, "
        "reproduction when in space, error = c * max_coord int r^2 with c in {1, 1/2}. Non-trivial: union breakpoints "
        "with at least two different span lengths and a source outside the target space")
ASSUMPTIONS = [
    "exact integrals of piecewise polynomials by interpolation per span (oracle.integral_product)",
    "rank-deficient node sets are excluded and counted; rational curves are outside this property (C05/C06 cover them)",
    "float profile: reproduction of in-space sources to 1e-9 only",
]


@st.composite
def cases(draw, nums=("frac",), with_nodes=None):
    high = draw(st.integers(0, 5)) == 0  # degrees 4 and 5 (larger quadrature tables), few knots
    if high:
        src = draw(gen.curves(0, 5, 1, nums=nums, rational=False, dim=draw(st.sampled_from([0, 0, 2])), regimes=False))
    else:
        src = draw(gen.curves(0, 3, 3, nums=nums, rational=False, dim=draw(st.sampled_from([0, 0, 2])), regimes="all"))
    U, p = src["U"], src["p"]
    bk = gen.breaks_of(U)
    mode = draw(st.sampled_from(["refinement", "generic", "generic"]))
    if mode == "refinement" and not high:
        Ut, pt = draw(refinement(U, p, 2, 1))
    elif high:
        mode = "generic"
        Ut, pt = draw(gen.knotvectors(0 if p >= 4 else 4, 5, 1, interval=(bk[0], bk[-1])))
    else:
        Ut, pt = draw(gen.knotvectors(0, 3, 3, interval=(bk[0], bk[-1])))
    nt = len(Ut) - pt - 1
    if with_nodes is None:
        with_nodes = draw(st.booleans())
    nodes = None
    if with_nodes:
        bt = gen.breaks_of(Ut)
        pool = list(bt)
        for lo, hi in zip(bt[:-1], bt[1:]):
            pool += [lo + (hi - lo) * t for t in (F(1, 2), F(1, 4), F(2, 3))]
        m = draw(st.integers(1, min(nt, 4)))
        nodes = sorted(draw(st.lists(st.sampled_from(pool), min_size=m, max_size=m, unique=True)))
    return {"src": src, "Ut": Ut, "pt": pt, "nodes": nodes, "mode": mode,
            "decoy": draw(st.integers(0, 2)) == 0, "via_fit": draw(st.integers(0, 3)) == 0}


def check(case, out):
    src = case["src"]
    num = src["num"]
    exact = lib.is_exact(num)
    s = lib.case_state(src)
    Ut = [oracle.frac(lib.conv_knot(u, num)) for u in case["Ut"]]
    pt = case["pt"]
    nt = len(Ut) - pt - 1
    nodes = case["nodes"]
    bku = oracle.union_breaks(s.U, Ut)
    lens = {b - a for a, b in zip(bku[:-1], bku[1:])}
    inspace = oracle.in_space(s, Ut, pt)
    out.cls("mode=" + case["mode"], "in-space" if inspace else "outside", "nodes" if nodes else "no-nodes",
            "non-uniform" if len(lens) >= 2 else "uniform", "num=" + num)
    out.nontrivial = len(lens) >= 2 and not inspace
    klass = ("nodes" if nodes else "plain") + (";in-space" if inspace else ";outside") + \
        (";non-uniform" if len(lens) >= 2 else ";uniform") + ("" if exact else ";float")
    source = lib.build_curve(src)
    target = lib.Curve([lib.conv_knot(u, num) for u in case["Ut"]])
    lnodes = None
    Bn = None
    if nodes:
        lnodes = [lib.conv_knot(z, num) for z in nodes]
        fn = [oracle.frac(z) for z in lnodes]
        Bn = [oracle.basis_row(Ut, pt, pt, z) for z in fn]
        if oracle.rank(Bn) < len(fn):
            out.exclude("rank-deficient-nodes")
            return
    snap = lib.snapshot(source)
    if case.get("decoy"):
        # history: the same pair of knot vectors was fitted before with another node setting (stale caches)
        out.cls("decoy-fit-first")
        decoy = lib.Curve([lib.conv_knot(u, num) for u in case["Ut"]])
        try:
            if nodes:
                decoy.fit_curve(source)
            else:
                decoy.fit_curve(source, [lib.conv_knot(Ut[0], num), lib.conv_knot(Ut[-1], num)][: max(1, min(2, nt))])
        except Exception as exc0:
            if not lib.from_library(exc0):
                raise
    use_fit = case.get("via_fit")
    try:
        if use_fit:
            out.cls("via=fit()")
            err = target.fit(source) if not nodes else target.fit(source, lnodes)
        else:
            err = target.fit_curve(source) if not nodes else target.fit_curve(source, lnodes)
    except ZeroDivisionError:
        out.exclude("singular-system")
        return
    if lib.snapshot(source) != snap:
        out.fail("operand-modified", klass, "fit_curve changed the source curve")
    d = lib.state_of(target)
    if d.U != Ut or len(d.P) != nt:
        out.fail("target-structure", klass, f"target now U={d.U} with {len(d.P)} points")
        return
    if not exact:
        if inspace:
            dev, where = oracle.max_deviation(s, d)
            tol = F(1, 10 ** 9) * max([abs(x) for p_ in s.P for x in p_] + [F(1)])
            if dev > tol:
                out.fail("not-reproduced", klass, f"in-space source not reproduced: deviation {float(dev):.3e} at {float(where)}")
            if abs(oracle.frac(float(err))) > F(1, 10 ** 9):
                out.fail("error-not-zero", klass, f"in-space source: error {err!r}")
        return
    errf = oracle.frac(err)
    if errf < 0:
        out.fail("error-negative", klass, f"returned error {err}")
    dim = s.dim
    dmax = max(s.p, pt)

    def resid(c):
        return lambda u: oracle.ceval(s, u)[c] - oracle.ceval(d, u)[c]
    if inspace:
        wit = oracle.same_function(s, d)
        if wit is not None:
            out.fail("not-reproduced", klass,
                     f"source U={s.U} P={s.P} lies in the target space U={Ut} (degree {pt}) but D differs at u={wit[0]}: {wit[1]} vs {wit[2]}")
            return
        if errf != 0:
            out.fail("error-not-zero", klass, f"source in the target space but error = {err}")
        return
    # orthogonality
    if not nodes:
        tests = [[F(int(i == j)) for j in range(nt)] for i in range(nt)]
    else:
        fn = [oracle.frac(z) for z in lnodes]
        for z in fn:
            a, b = oracle.ceval(s, z), oracle.ceval(d, z)
            if a != b:
                out.fail("not-interpolating", klass,
                         f"fit_curve(nodes={fn}) source U={s.U} P={s.P} target U={Ut}: D({z}) = {b}, C({z}) = {a}")
                return
        tests = oracle.nullspace(Bn, nt)
    for coefs in tests:
        g = State(Ut, pt, [(x,) for x in coefs], None, True)
        gf = lambda u, g=g: oracle.ceval(g, u)[0]  # noqa: E731
        for c in range(dim):
            val = oracle.integral_product(resid(c), dmax, gf, pt, bku)
            if val != 0:
                which = f"basis function {coefs.index(1)}" if not nodes else f"null-space element {coefs}"
                out.fail("not-orthogonal", klass,
                         f"source U={s.U} P={s.P}, target U={Ut} degree {pt}, nodes={nodes}: int (C-D)*g = {val} for {which}; D: P={d.P}")
                return
    worst = max(oracle.integral_product(resid(c), dmax, resid(c), dmax, bku) for c in range(dim))
    if worst == 0:
        if errf != 0:
            out.fail("error-meaning", klass, f"residual is zero but error = {err}")
        return
    ratio = errf / worst
    out.cls(f"error/int-r2={ratio}" if ratio in (1, F(1, 2)) else "error/int-r2=other")
    if ratio not in (1, F(1, 2)):
        out.fail("error-meaning", klass,
                 f"source U={s.U} P={s.P}, target U={Ut} degree {pt}, nodes={nodes}: error = {float(errf):.6g}, "
                 f"max_coord int r^2 = {float(worst):.6g}, ratio {float(ratio):.6g} (expected 1 or 1/2)")


FACETS = [
    Facet("plain", lambda tier: cases(("frac",), False), check, quick=600, thorough=4000,
          rule="unconstrained projection", case_timeout=120),
    Facet("nodes", lambda tier: cases(("frac",), True), check, quick=500, thorough=3000,
          rule="projection with interpolation constraints", case_timeout=120),
    Facet("float", lambda tier: cases(("float", "npfloat")), check, quick=300, thorough=2500,
          rule="float data: reproduction of in-space sources"),
]
