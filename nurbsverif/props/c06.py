"""C06 - degree elevation is exact; degree reduction is its inverse or is refused."""
from fractions import Fraction as F

from hypothesis import strategies as st

from .. import gen, lib, oracle
from ..oracle import State
from ..runner import Facet
from .c13 import build_from_state

RULE = ("curves of degree 0..3 (Bezier, multi-span, mixed interior multiplicities, knot at 0, rational ~40%) "
        "elevated by t in 1..2 (1..3 thorough) through degree_increase(t) or the degree setter; reduction of "
        "reference-elevated states (must restore exactly) and of generic states (must refuse and stay unchanged, or "
        "with tolerance=None succeed keeping the values at the remaining knots); invalid times. Non-trivial: interior "
        "knots with two different multiplicities, or t >= 2 on a multi-span curve, or any reduction of a multi-span curve")
ASSUMPTIONS = [
    "elevated vector: every distinct knot's multiplicity + t (oracle.elevated_vector)",
    "same function decided exactly (oracle.same_function); polynomial result compared with the unique representation",
    "tolerance=None interpolation clause asserted when the reduced degree is >= 1",
    "rational curves: a forced (tolerance=None) reduction may be refused with ValueError when the projected weight "
    "function would vanish; then only 'unchanged' is asserted",
]


@st.composite
def cases(draw, mode, nums=("frac",), tmax=2):
    big = mode == "elevate" and draw(st.integers(0, 5)) == 0
    if big:
        # many levels at once (a closed form for t levels need not agree with t single steps): small curves
        c = draw(gen.curves(0, 3, 1, nums=nums, rational=draw(st.integers(0, 4)) < 2, regimes=False))
        # (floats: up to 5 levels - the Gram matrices of degree >= 10 are too ill-conditioned for a 1e-9 comparison)
        t = draw(st.sampled_from([4, 5, 6, 7, 8, 9] if "frac" in nums else [4, 5]))
    else:
        c = draw(gen.curves(0, 3, 3, nums=nums, rational=draw(st.integers(0, 4)) < 2,
                             regimes="all" if mode == "elevate" else None))
        t = draw(st.integers(1, tmax))
    c = draw(gen.weight_magnitude(c))
    c = draw(gen.flat_coordinate(c))
    return {"curve": c, "t": t, "mode": mode, "via": draw(st.sampled_from(["method", "setter"])),
            "twin_first": draw(st.integers(0, 2)) == 0,
            "tolerance": draw(st.sampled_from(["default", "none", "zero"])),
            "badtimes": draw(st.sampled_from([0, -1, "1.5", "a"]))}


@st.composite
def forced_float_cases(draw):
    p = draw(st.integers(2, 5))
    t = draw(st.integers(1, 2 if p >= 3 else 1))
    U, _ = draw(gen.knotvectors(degree=p, kmax=2))
    # keep interior multiplicities >= t (feasible) by construction: raise them where needed
    bk = gen.breaks_of(U)
    V = [bk[0]] * (p + 1)
    for z in bk[1:-1]:
        V += [z] * min(p + 1, max(U.count(z), t + draw(st.integers(0, 1))))
    V += [bk[-1]] * (p + 1)
    n = len(V) - p - 1
    P = draw(gen.ctrlpoints(n, draw(st.sampled_from([0, 0, 2]))))
    return {"curve": {"U": V, "p": p, "P": P, "w": None, "num": draw(st.sampled_from(["float", "npfloat"]))}, "t": t}


@st.composite
def special_cases(draw):
    """Rational curves on an elevated space whose weights alone (or numerator alone) are reducible."""
    Ulow, plow = draw(gen.knotvectors(0, 2, 2))
    t = draw(st.integers(1, 2))
    Uhigh = oracle.elevated_vector(Ulow, plow, t)
    c, kind = draw(gen.special_rational(Ulow, plow, Uhigh, plow + t))
    return {"curve": c, "t": t, "mode": "generic", "via": "method", "special": kind,
            "tolerance": draw(st.sampled_from(["default", "default", "none"])), "badtimes": 0}


def classify(ref, t, out):
    bk = oracle.breaks(ref.U)[1:-1]
    mults = {oracle.mult(ref.U, z) for z in bk}
    out.cls(f"p={ref.p}", f"t={t}", "rational" if ref.w is not None else "polynomial",
            "bezier" if not bk else "multi-span")
    if len(mults) >= 2:
        out.cls("mixed-multiplicities")
    if F(0) in bk:
        out.cls("knot==0")
    return bk, mults


def check_elevate(case, out):
    c = case["curve"]
    num = c["num"]
    exact = lib.is_exact(num)
    ref = lib.case_state(c)
    curve = lib.build_curve(c)
    t = case["t"]
    bk, mults = classify(ref, t, out)
    out.cls("num=" + num, "via=" + case["via"])
    out.nontrivial = len(mults) >= 2 or (t >= 2 and bool(bk))
    kind = ("rational" if ref.w is not None else "polynomial") + (";exact" if exact else ";float")
    struct = "bezier" if not bk else ("mixed-mult" if len(mults) >= 2 else "uniform-mult")
    klass = f"{kind};{struct}"
    # invalid times first (must not change anything)
    bad = case["badtimes"]
    bad = 1.5 if bad == "1.5" else bad
    snap = lib.snapshot(curve)
    try:
        curve.degree_increase(bad)
        out.fail("invalid-times-accepted", klass, f"degree_increase({bad!r}) accepted")
    except ValueError:
        if lib.snapshot(curve) != snap:
            out.fail("atomicity", klass, f"degree_increase({bad!r}) raised but changed the curve")
    except TypeError:
        if not isinstance(bad, str) or lib.snapshot(curve) != snap:
            out.fail("invalid-times-wrong-exception", klass, f"degree_increase({bad!r}) raised TypeError")
    if exact and case.get("twin_first"):
        out.cls("float-twin-first")
        try:
            lib.build_curve(dict(c, num="float")).degree_increase(t)
        except Exception as exc0:
            if not lib.from_library(exc0):
                raise
    curve = lib.build_curve(c)
    expU = oracle.elevated_vector(ref.U, ref.p, t)
    snap0 = lib.snapshot(curve)
    try:
        if case["via"] == "method":
            curve.degree_increase(t)
        else:
            curve.degree = ref.p + t
    except ValueError as exc:
        if lib.refined_weight_vanishes(ref, expU, ref.p + t):
            # mixed-sign weights: the elevated representation would need a control point at infinity
            if lib.snapshot(curve) != snap0:
                out.fail("atomicity", klass, f"elevation by {t} refused ({exc}) but the curve changed")
            out.exclude("elevated-control-weight-vanishes (no finite (P, w) representation)")
            return
        raise
    after = lib.state_of(curve)
    if after.U != expU or after.p != ref.p + t:
        out.fail("knotvector", klass, f"elevation by {t} of U={ref.U}: got {after.U} (degree {after.p}), expected {expU}")
        return
    if len(after.P) != len(expU) - after.p - 1 or (after.w is not None and len(after.w) != len(after.P)):
        out.fail("npts", klass, f"{len(after.P)} control points on {expU}")
        return
    if (after.w is None) != (ref.w is None):
        out.fail("weights-presence", klass, f"weights {ref.w} -> {after.w}")
        return
    if exact:
        wit = oracle.same_function(ref, after)
        if wit is not None:
            out.fail("function-changed", klass,
                     f"elevation by {t} of U={ref.U} P={ref.P} w={ref.w}: at u={wit[0]} before={wit[1]} after={wit[2]}")
            return
        if ref.w is None:
            exp = oracle.refine_state(ref, expU, ref.p + t)
            if exp.P != after.P:
                out.fail("control-points", klass, f"got {after.P}, unique representation is {exp.P}")
    else:
        dev, where = oracle.max_deviation(ref, after)
        tol = F(1, 10 ** 9) * max([abs(x) for pt in ref.P for x in pt] + [F(1)])
        if dev > tol:
            out.fail("function-changed", klass, f"elevation by {t} of U={ref.U}: deviation {float(dev):.3e} at u={float(where)}")


def check_roundtrip(case, out):
    c = case["curve"]
    base = lib.case_state(c)
    t = case["t"]
    bk, mults = classify(base, t, out)
    out.nontrivial = bool(bk)
    kind = "rational" if base.w is not None else "polynomial"
    struct = "bezier" if not bk else ("mixed-mult" if len(mults) >= 2 else "uniform-mult")
    klass = f"{kind};{struct}"
    big = oracle.refine_state(base, oracle.elevated_vector(base.U, base.p, t), base.p + t)
    curve = build_from_state(big)
    tol = case["tolerance"]
    out.cls("via=" + case["via"], "tolerance=" + tol)
    try:
        if case["via"] == "setter":
            curve.degree = base.p
        elif tol == "none":
            curve.degree_decrease(t, None)
        else:
            curve.degree_decrease(t)
    except ValueError as exc:
        out.fail("exact-reduction-refused", klass,
                 f"degree_decrease({t}) of the elevation of U={base.U} P={base.P} w={base.w}: ValueError {exc}")
        if lib.state_of(curve).key() != big.key():
            out.fail("atomicity", klass, "refused reduction changed the curve")
        return
    after = lib.state_of(curve)
    if after.U != base.U or after.p != base.p:
        out.fail("knotvector", klass, f"reduction gave {after.U} degree {after.p}, expected {base.U}")
        return
    wit = oracle.same_function(base, after)
    if wit is not None:
        out.fail("reduction-not-inverse", klass,
                 f"degree_decrease({t}, tolerance={tol}) of the elevation of U={base.U} P={base.P} w={base.w}: "
                 f"at u={wit[0]} original={wit[1]} result={wit[2]}")
        return
    if base.w is None and after.P != base.P:
        out.fail("control-points", klass, f"got {after.P}, original {base.P}")


def check_generic(case, out):
    """Generic curve of degree p+t: reduction by t is (almost surely) impossible."""
    c = case["curve"]
    ref = lib.case_state(c)
    t = case["t"]
    bk, mults = classify(ref, t, out)
    kind = "rational" if ref.w is not None else "polynomial"
    klass = kind
    if ref.p - t < 0:
        out.cls("reduce-below-zero")
        curve = lib.build_curve(c)
        snap = lib.snapshot(curve)
        try:
            curve.degree_decrease(t)
            out.fail("invalid-reduction-accepted", klass, f"degree_decrease({t}) at degree {ref.p} accepted")
        except (ValueError, AssertionError):
            if lib.snapshot(curve) != snap:
                out.fail("atomicity", klass, f"degree_decrease({t}) at degree {ref.p} raised but changed the curve")
        return
    newp = ref.p - t
    newU = []
    feasible = True
    for z in oracle.breaks(ref.U):
        m = oracle.mult(ref.U, z) - t
        if m < 0:
            feasible = False
        newU += [z] * max(m, 0)
    out.nontrivial = bool(bk)
    if ref.w is None:
        representable = feasible and oracle.in_space(ref, newU, newp)
    else:
        representable = feasible and oracle.represent_rational(ref, newU, newp) is not None
    out.cls("representable" if representable else "not-representable", "feasible" if feasible else "knot-mult<t")
    if case.get("special"):
        out.cls("special=" + case["special"])
        klass = kind + ";" + case["special"]
    curve = lib.build_curve(c)
    if case.get("twin_first") and feasible:
        # history: an unconstrained projection between the same two knot vectors happened before (stale caches)
        out.cls("decoy-projection-first")
        try:
            lib.Curve(list(newU)).fit_curve(curve)
        except Exception as exc0:
            if not lib.from_library(exc0):
                raise
    snap = lib.snapshot(curve)
    tol = case["tolerance"]
    try:
        if tol == "none":
            curve.degree_decrease(t, None)
        elif tol == "zero":
            # an explicit tolerance of exactly zero (legal: tolerance >= 0) asks for exact reductions only
            out.cls("tolerance=0")
            curve.degree_decrease(t, (0, F(0), 0.0)[t % 3])
        else:
            curve.degree_decrease(t)
        exc = None
    except ValueError as e:
        exc = e
    if exc is not None:
        if lib.snapshot(curve) != snap:
            out.fail("atomicity", klass, f"degree_decrease({t}) raised ValueError but changed the curve")
        if representable:
            out.fail("exact-reduction-refused", klass, f"U={ref.U} P={ref.P} w={ref.w}: representable at degree {newp} but refused: {exc}")
        elif tol == "none" and feasible and newp >= 1 and ref.w is not None:
            # a forced projection of homogeneous coordinates may produce a vanishing weight: the library
            # refuses then (no valid rational curve exists on that path); only atomicity is asserted
            out.cls("rational-forced-reduction-refused")
        elif tol == "none" and feasible and newp >= 1:
            out.fail("forced-reduction-refused", klass,
                     f"degree_decrease({t}, None) on U={ref.U} P={ref.P} w={ref.w} raised {exc}")
        return
    after = lib.state_of(curve)
    if not feasible:
        out.fail("infeasible-reduction-accepted", klass, f"U={ref.U} reduced by {t} to {after.U}")
        return
    if after.U != newU or after.p != newp:
        out.fail("knotvector", klass, f"reduction gave {after.U} degree {after.p}, expected {newU}")
        return
    if representable:
        wit = oracle.same_function(ref, after)
        if wit is not None:
            out.fail("reduction-not-inverse", klass, f"U={ref.U} P={ref.P} w={ref.w}: at u={wit[0]} {wit[1]} vs {wit[2]}")
        return
    if tol == "zero":
        out.fail("silently-lossy", klass + ";tolerance=0",
                 f"degree_decrease({t}, 0) succeeded on U={ref.U} P={ref.P} w={ref.w}, which is not representable at degree {newp}")
        return
    if tol != "none":
        # succeeded with the default tolerance although not representable: the deviation must be within the bound
        if ref.w is None:
            worst = F(0)
            bku = oracle.union_breaks(ref.U, after.U)
            for cidx in range(ref.dim):
                f = lambda u, k=cidx: oracle.ceval(ref, u)[k] - oracle.ceval(after, u)[k]  # noqa: E731
                worst = max(worst, oracle.integral_product(f, ref.p, f, ref.p, bku))
            bound = 2 * F(1, 10 ** 9) * max(1, ref.U[-1] - ref.U[0])
            if worst > bound:
                out.fail("silently-lossy", klass,
                         f"degree_decrease({t}) succeeded on U={ref.U} P={ref.P}: int (C-D)^2 = {float(worst):.3e} > {float(bound):.1e}")
        else:
            dev, where = oracle.max_deviation(ref, after)
            if dev > F(1, 10 ** 4):
                out.fail("silently-lossy", klass,
                         f"degree_decrease({t}) succeeded on rational U={ref.U} P={ref.P} w={ref.w}: deviation {float(dev):.3e} at {where}")
        return
    if newp >= 1:
        for z in oracle.breaks(newU):
            a, b = oracle.ceval(ref, z), oracle.ceval(after, z)
            if a != b:
                out.fail("forced-reduction-moves-knot-values", klass,
                         f"degree_decrease({t}, None) on U={ref.U} P={ref.P} w={ref.w}: value at knot {z} {a} -> {b}")
                return
        if ref.w is None and lib.is_exact(c["num"]):
            # "the constrained best approximation": the residual is L2-orthogonal to every element of the lower
            # space that vanishes at all remaining knots (decided exactly, as in C11)
            nodes = oracle.breaks(newU)
            nt = len(newU) - newp - 1
            Bn = [oracle.basis_row(newU, newp, newp, z) for z in nodes]
            if oracle.rank(Bn) < len(nodes):
                out.cls("forced:constraints-dependent")
                return
            free = oracle.nullspace(Bn, nt)
            out.cls(f"forced:free-directions={min(len(free), 3)}")
            bku = oracle.union_breaks(ref.U, newU)
            for coefs in free:
                gs = State(newU, newp, [(x,) for x in coefs], None, True)
                gf = lambda u, gs=gs: oracle.ceval(gs, u)[0]  # noqa: E731
                for k in range(ref.dim):
                    rf = lambda u, k=k: oracle.ceval(ref, u)[k] - oracle.ceval(after, u)[k]  # noqa: E731
                    val = oracle.integral_product(rf, ref.p, gf, newp, bku)
                    if val != 0:
                        out.fail("forced-reduction-not-best-approximation", klass,
                                 f"degree_decrease({t}, None) on U={ref.U} P={ref.P}: the residual is not orthogonal to the "
                                 f"element {coefs} of the degree-{newp} space that vanishes at every remaining knot "
                                 f"(int (C-D)*g = {val}); D: P={after.P}")
                        return


def check_forced_float(case, out):
    """Float data: degree_decrease(t, None) is still the constrained best approximation, to rounding."""
    c = case["curve"]
    ref = lib.case_state(c)  # (the rounded data)
    t = case["t"]
    classify(ref, t, out)
    out.cls("num=" + c["num"])
    klass = "forced;float"
    newp = ref.p - t
    newU = []
    for z in oracle.breaks(ref.U):
        m = oracle.mult(ref.U, z) - t
        if m < 0:
            newU = None
            break
        newU += [z] * m
    if ref.w is not None or newp < 1 or newU is None:
        out.exclude("not-a-forced-polynomial-reduction-to-degree>=1")
        return
    if oracle.in_space(ref, newU, newp):
        out.exclude("representable (the exact facets cover it)")
        return
    out.nontrivial = len(oracle.breaks(ref.U)) > 2
    curve = lib.build_curve(c)
    try:
        curve.degree_decrease(t, None)
    except Exception as exc:
        if not lib.from_library(exc):
            raise
        out.fail("forced-reduction-refused", klass,
                 f"degree_decrease({t}, None) on U={ref.U} P={ref.P} raised {type(exc).__name__}: {exc}")
        return
    after = lib.state_of(curve)
    if after.U != newU or after.p != newp:
        out.fail("knotvector", klass, f"reduction gave {after.U} degree {after.p}, expected {newU}")
        return
    scale = max([abs(x) for pt in ref.P for x in pt] + [F(1)])
    L = ref.U[-1] - ref.U[0]
    nodes = oracle.breaks(newU)
    for z in nodes:
        a, b = oracle.ceval(ref, z), oracle.ceval(after, z)
        if max(abs(x - y) for x, y in zip(a, b)) > F(1, 10 ** 8) * scale:
            out.fail("forced-reduction-moves-knot-values", klass,
                     f"degree_decrease({t}, None) on U={ref.U} P={ref.P}: value at knot {z} {[float(x) for x in a]} -> {[float(x) for x in b]}")
            return
    nt = len(newU) - newp - 1
    Bn = [oracle.basis_row(newU, newp, newp, z) for z in nodes]
    if oracle.rank(Bn) < len(nodes):
        out.cls("forced:constraints-dependent")
        return
    free = oracle.nullspace(Bn, nt)
    out.cls(f"forced:free-directions={min(len(free), 3)}")
    bku = oracle.union_breaks(ref.U, newU)
    for coefs in free:
        gs = State(newU, newp, [(x,) for x in coefs], None, True)
        gf = lambda u, gs=gs: oracle.ceval(gs, u)[0]  # noqa: E731
        gmax = max(abs(x) for x in coefs)
        for k in range(ref.dim):
            rf = lambda u, k=k: oracle.ceval(ref, u)[k] - oracle.ceval(after, u)[k]  # noqa: E731
            val = oracle.integral_product(rf, ref.p, gf, newp, bku)
            if abs(val) > F(1, 10 ** 7) * scale * gmax * L:
                out.fail("forced-reduction-not-best-approximation", klass,
                         f"degree_decrease({t}, None) on float U={[float(u) for u in ref.U]} P={[[float(x) for x in pt] for pt in ref.P]}: "
                         f"int (C-D)*g = {float(val):.3e} for the element {[float(x) for x in coefs]} of the degree-{newp} space that "
                         f"vanishes at every remaining knot; D: P={[[float(x) for x in pt] for pt in after.P]}")
                return


FACETS = [
    Facet("elevate", lambda tier: cases("elevate", ("frac", "frac", "fracint"), 2 if tier == "quick" else 3),
          check_elevate, quick=600, thorough=5000, rule="degree_increase / degree setter, exact decision"),
    Facet("elevate-float", lambda tier: cases("elevate", ("float", "npfloat"), 2), check_elevate, quick=120,
          thorough=2000, rule="float data, 1e-9"),
    Facet("reduce-roundtrip", lambda tier: cases("roundtrip", ("frac",), 2), check_roundtrip, quick=450,
          thorough=4000, rule="reduction of reference-elevated states must restore them"),
    Facet("reduce-generic", lambda tier: cases("generic", ("frac",), 2), check_generic, quick=450, thorough=4000,
          rule="reduction of generic states: refuse+unchanged, or tolerance=None keeps knot values"),
    Facet("reduce-rational-special", lambda tier: special_cases(), check_generic, quick=320, thorough=2500,
          rule="rational curves whose weight function alone / numerator alone / constant weights are reducible"),
    Facet("reduce-forced-float", lambda tier: forced_float_cases(), check_forced_float, quick=400, thorough=3000,
          rule="float polynomial curves of degree 2..5 (the float code path integrates with another rule): "
               "degree_decrease(t, None) keeps the values at the remaining knots and leaves a residual orthogonal to "
               "every element of the lower space vanishing there, to 1e-7 relative"),
]
