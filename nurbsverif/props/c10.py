"""C10 - quadrature rules are exact to their order; spline integrals are exact."""
import os
import pickle
from fractions import Fraction as F

import numpy as np
from hypothesis import strategies as st

from .. import gen, lib, oracle
from ..oracle import State
from ..runner import Facet

RULE = ("rules: histories of 5..40 requests (family in closed/open Newton-Cotes, Chebyshev, Gauss-Legendre; nodes or "
        "weights; n <= 12 quick / 16 thorough) executed in a freshly forked child of a process that never touched the "
        "memo tables; after every request the moment conditions are checked and the answer is compared bit-for-bit "
        "with the answer of a child that made only that request. scalar/function: exact polynomial splines (degree "
        "0..4, non-uniform, repeated knots) and per-span polynomials (continuous at the knots; jumping at them for the rules without end nodes) integrated with every method and compared with "
        "exact closed forms. lenght: polylines vs. the sum of segment lengths. Non-trivial: a history in which some "
        "size is requested after a larger size of another family; splines with spans of different length")
ASSUMPTIONS = [
    "Fraction families (closed/open Newton-Cotes) must be exact; float families (Chebyshev, Gauss) to 1e-10 for n <= 16 "
    "(measured error on the unchanged tree <= 2e-13)",
    "fresh module state is obtained by os.fork() from a worker that never calls a quadrature function itself",
    "closed Newton-Cotes on a curve that jumps at an interior knot samples the jump itself: kept as a separate class",
    "Integrate.scalar is exercised on scalar-valued curves (its name and its tests; numpy refuses the ragged product for vector points)",
]

FAMILIES = ["closed", "open", "cheb", "gauss"]
METHODS = {"closed": "closed-newton-cotes", "open": "open-newton-cotes", "cheb": "chebyshev", "gauss": "gauss-legendre"}


def node_fn(fam):
    NS = lib.heavy.NodeSample
    return {"closed": NS.closed_linspace, "open": NS.open_linspace, "cheb": NS.chebyshev, "gauss": NS.gauss_legendre}[fam]


def weight_fn(fam):
    IA = lib.heavy.IntegratorArray
    return {"closed": IA.closed_newton_cotes, "open": IA.open_newton_cotes, "cheb": IA.chebyshev,
            "gauss": IA.gauss_legendre}[fam]


def in_child(fn):
    """Run fn() in a forked child, return its (picklable) result."""
    r, w = os.pipe()
    pid = os.fork()
    if pid == 0:
        code = 0
        try:
            os.close(r)
            try:
                payload = ("ok", fn())
            except BaseException as exc:  # noqa: BLE001
                payload = ("exc", f"{type(exc).__name__}: {exc}", lib.from_library(exc) if isinstance(exc, Exception) else False)
            with os.fdopen(w, "wb") as fh:
                pickle.dump(payload, fh)
        except BaseException:  # noqa: BLE001
            code = 1
        os._exit(code)
    os.close(w)
    with os.fdopen(r, "rb") as fh:
        data = fh.read()
    os.waitpid(pid, 0)
    if not data:
        raise lib.HarnessError("child died without an answer")
    return pickle.loads(data)


def one_request(fam, kind, n):
    """Perform one request and check it.  Returns (value, problems)."""
    problems = []
    exactfam = fam in ("closed", "open")
    if kind == "nodes":
        x = node_fn(fam)(n)
        xs = [oracle.frac(v) for v in x]
        if len(xs) != n:
            problems.append(("count", f"{fam} nodes({n}) returned {len(xs)} nodes"))
        if any(not (0 <= v <= 1) for v in xs) or any(a >= b for a, b in zip(xs[:-1], xs[1:])):
            problems.append(("nodes-order", f"{fam} nodes({n}) = {x} not strictly increasing inside [0,1]"))
        return tuple(x), problems
    w = weight_fn(fam)(n)
    x = node_fn(fam)(n)
    ws = [oracle.frac(v) for v in w]
    xs = [oracle.frac(v) for v in x]
    if len(ws) != n or len(xs) != n:
        problems.append(("count", f"{fam} weights({n}) returned {len(ws)} weights / {len(xs)} nodes"))
        return tuple(w), problems
    tol = F(0) if exactfam else F(1, 10 ** 10)
    if abs(sum(ws) - 1) > tol:
        problems.append(("weights-sum", f"{fam} weights({n}) sum to {float(sum(ws))!r}"))
    K = 2 * n if fam == "gauss" else n
    for k in range(K):
        m = sum(wi * xi ** k for wi, xi in zip(ws, xs))
        if abs(m - F(1, k + 1)) > tol:
            problems.append(("moment", f"{fam} rule with {n} nodes integrates x^{k} to {float(m)!r}, exact {float(F(1, k + 1))!r}"))
            break
    if exactfam and n <= 10:
        V = [[xi ** k for xi in xs] for k in range(n)]
        sol = oracle.linsolve(V, [[F(1, k + 1)] for k in range(n)])
        if sol is not None and [s[0] for s in sol] != ws:
            problems.append(("weights-not-interpolatory", f"{fam} weights({n}) = {w}"))
    return tuple(w), problems


_SINGLE = {}


def single_answer(req):
    if req not in _SINGLE:
        _SINGLE[req] = in_child(lambda: one_request(*req)[0])
    return _SINGLE[req]


def run_history(reqs):
    results = []
    for req in reqs:
        val, problems = one_request(*req)
        results.append((req, val, problems))
    return results


@st.composite
def rule_cases(draw, nmax):
    reqs = draw(st.lists(st.tuples(st.sampled_from(FAMILIES), st.sampled_from(["nodes", "weights", "weights"]),
                                   st.integers(1, nmax)), min_size=5, max_size=40))
    reqs = [(f, k, max(n, 2) if f == "closed" else n) for f, k, n in reqs]
    return {"requests": reqs}


def check_rules(case, out):
    reqs = [tuple(r) for r in case["requests"]]
    status = in_child(lambda: run_history(reqs))
    if status[0] == "exc":
        if status[2]:
            out.fail("unexpected-exception", "history", status[1])
            return
        raise lib.HarnessError("history child failed: " + status[1])
    seen_max = {}
    after_larger = False
    for (fam, kind, n) in reqs:
        for f2, m in seen_max.items():
            if f2 != fam and m > n:
                after_larger = True
        seen_max[fam] = max(seen_max.get(fam, 0), n)
    out.nontrivial = after_larger
    out.cls(f"len={len(reqs) // 10 * 10}+")
    for (req, val, problems) in status[1]:
        fam, kind, n = req
        out.cls("fam=" + fam)
        for clause, msg in problems:
            out.fail(clause, f"{fam};{kind}", msg + f" [history: {reqs}]")
        single = single_answer(req)
        if single[0] == "exc":
            if single[2]:
                out.fail("unexpected-exception", f"{fam};{kind}", f"single request {req}: {single[1]}")
                continue
            raise lib.HarnessError("single child failed: " + single[1])
        if single[1] != val:
            out.fail("depends-on-history", f"{fam};{kind}",
                     f"request {req} answered {val} after the history {reqs[:reqs.index(req)]}, but {single[1]} in a fresh process")


# ---------------------------------------------------------------- scalar / function / lenght

@st.composite
def scalar_cases(draw, nums=("frac",)):
    if draw(st.integers(0, 5)) == 0:
        c = draw(gen.curves(5, 9, 1, nums=nums, rational=False, dim=0, far=False))  # high degree, at most one interior knot
    else:
        c = draw(gen.curves(0, 4, 4, nums=nums, rational=False, dim=0, far=False))
    fam = draw(st.sampled_from(["default", "default"] + FAMILIES))
    p = c["p"]
    k = draw(st.integers(0, 3))
    nn = draw(st.integers(p + k + 1, p + k + 3))
    if fam == "closed":
        nn = max(nn, 2)
    return {"curve": c, "family": fam, "nnodes": nn, "k": k if fam != "default" else 0,
            "explicit_nnodes": draw(st.booleans()), "history": draw(st.sampled_from(lib.HISTORY_MODES))}


def check_scalar(case, out):
    from compmec.nurbs.calculus import Integrate
    c = case["curve"]
    num = c["num"]
    exact = lib.is_exact(num)
    ref = lib.case_state(c)
    curve = lib.build_curve(c)
    if case.get("history"):
        # object history: the same object was integrated while it held other control points / another parametrisation
        def use(obj):
            lib.default_use(obj)
            for args in ((), ("closed-newton-cotes", obj.degree + 2), ("gauss-legendre", obj.degree + 1)):
                try:
                    Integrate.scalar(obj, None, *args)
                except Exception as exc0:
                    if not lib.from_library(exc0):
                        raise
        curve = lib.build_curve_history(c, case["history"], use)
        out.cls("history=" + case["history"])
    p = ref.p
    fam = case["family"]
    bk = oracle.breaks(ref.U)
    jumps = any(oracle.mult(ref.U, z) == p + 1 for z in bk[1:-1])
    lens = {b - a for a, b in zip(bk[:-1], bk[1:])}
    out.cls("family=" + fam, "num=" + num, "jump" if jumps else "continuous",
            "non-uniform" if len(lens) >= 2 else "uniform")
    out.nontrivial = len(lens) >= 2
    k = case["k"]
    snap = lib.snapshot(curve)
    if fam == "default":
        got = Integrate.scalar(curve)
        floatrule = not exact
    else:
        g = (lambda u: u ** k) if k else None
        if k == 0 and not case.get("explicit_nnodes", True) and not (fam == "closed" and p == 0):
            out.cls("default-nnodes")
            got = Integrate.scalar(curve, None, METHODS[fam])  # default: degree+1 nodes, still exact
        else:
            got = Integrate.scalar(curve, g, METHODS[fam], case["nnodes"])
        floatrule = fam in ("cheb", "gauss") or not exact
    if lib.snapshot(curve) != snap:
        out.fail("operand-modified", fam, "Integrate.scalar changed the curve")
    # exact value
    if k == 0:
        want = tuple(sum(ref.P[i][cidx] * (ref.U[i + p + 1] - ref.U[i]) for i in range(ref.n)) / (p + 1)
                     for cidx in range(ref.dim))
    else:
        want = tuple(oracle.integral_product(oracle.component_func(ref, cidx), p, lambda u: u ** k, k, bk)
                     for cidx in range(ref.dim))
    gv = lib.point_tuple(got)
    scale = max([abs(x) for pt in ref.P for x in pt] + [F(1)]) * max(F(1), ref.U[-1] - ref.U[0]) * \
        max(F(1), max(abs(ref.U[0]), abs(ref.U[-1])) ** k)
    klass = f"{fam};{'jump' if jumps else 'continuous'};{'float' if floatrule else 'exact'}"
    if fam == "closed" and jumps:
        klass = "closed-rule-at-discontinuity"
    if len(gv) != len(want):
        out.fail("shape", klass, f"integral has {len(gv)} components")
        return
    if floatrule:
        dev = max(abs(a - b) for a, b in zip(gv, want))
        if dev > F(1, 10 ** 9) * scale:
            out.fail("integral-wrong", klass,
                     f"Integrate.scalar(U={ref.U}, P={ref.P}, g=u^{k}, {fam}, {case['nnodes']}) = {tuple(map(float, gv))}, exact {tuple(map(float, want))}")
    else:
        if gv != want:
            out.fail("integral-wrong", klass,
                     f"Integrate.scalar(U={ref.U}, P={ref.P}, g=u^{k}, {fam}, {case['nnodes']}) = {gv}, exact {want}")


@st.composite
def function_cases(draw):
    U, p = draw(gen.knotvectors(0, 3, 4))
    fam = draw(st.sampled_from(["default"] + FAMILIES))
    gkind = draw(st.sampled_from(["poly", "spline", "jumps"]))
    if gkind == "jumps" and fam == "closed":
        fam = "open"  # a closed rule reads an integrand that jumps at a knot once for both spans: not exact, not asked
    deg = draw(st.integers(0, 4))
    nn = draw(st.integers(deg + 1, deg + 3))
    if fam == "closed":
        nn = max(nn, 2)
    if fam == "default":
        deg = min(deg, p)
    coefs = draw(st.lists(gen.small_fracs(-5, 5, (1, 2, 3)), min_size=deg + 1, max_size=deg + 1))
    # a spline on the same breakpoints, continuous (mult <= deg) so that closed rules see one value per knot
    bk = gen.breaks_of(U)
    V = [bk[0]] * (deg + 1)
    for z in bk[1:-1]:
        # "jumps": per-span polynomials that disagree at the knots (multiplicity deg+1), for the rules without end nodes
        V += [z] * (draw(st.sampled_from([deg + 1, deg + 1, max(deg, 1)])) if gkind == "jumps" else draw(st.integers(1, max(deg, 1))))
    V += [bk[-1]] * (deg + 1)
    Q = draw(gen.ctrlpoints(len(V) - deg - 1, 0))
    return {"U": U, "p": p, "family": fam, "nnodes": nn, "gkind": gkind, "deg": deg, "coefs": coefs,
            "V": V, "Q": Q, "num": draw(st.sampled_from(["frac", "frac", "float"]))}


def check_function(case, out):
    from compmec.nurbs.calculus import Integrate
    num = case["num"]
    exact = num == "frac"
    U = [lib.conv_knot(u, num) for u in case["U"]]
    fU = [oracle.frac(u) for u in U]
    kv = lib.KnotVector(U)
    fam = case["family"]
    deg = case["deg"]
    bk = oracle.breaks(fU)
    lens = {b - a for a, b in zip(bk[:-1], bk[1:])}
    out.cls("family=" + fam, "g=" + case["gkind"], "num=" + num)
    out.nontrivial = len(lens) >= 2
    if case["gkind"] == "poly" or (deg == 0 and case["gkind"] != "jumps"):
        coefs = case["coefs"]

        def gx(u):
            return oracle.poly_eval(coefs, oracle.frac(u))
        want = sum(ck * (bk[-1] ** (k + 1) - bk[0] ** (k + 1)) / (k + 1) for k, ck in enumerate(coefs))
    else:
        V = [oracle.frac(lib.conv_knot(v, num)) for v in case["V"]]
        gs = State(V, deg, [(q,) for q in case["Q"]], None, True)

        def gx(u):
            return oracle.ceval(gs, oracle.frac(u))[0]
        want = sum(gs.P[i][0] * (V[i + deg + 1] - V[i]) for i in range(gs.n)) / (deg + 1)

    def g(u):
        v = gx(u)
        return v if exact else float(v)
    if fam == "default":
        got = Integrate.function(kv, g)
        floatrule = not exact
        effective = kv.degree + 1
        if effective <= deg:
            out.exclude("default-rule-too-small")
            return
    else:
        got = Integrate.function(kv, g, METHODS[fam], case["nnodes"])
        floatrule = fam in ("cheb", "gauss") or not exact
    klass = f"{fam};{case['gkind']};{'float' if floatrule else 'exact'}"
    gotf = oracle.frac(got)
    if floatrule:
        scale = max([abs(x) for x in case["coefs"]] + [abs(x) for x in case["Q"]] + [F(1)]) * \
            max(F(1), max(abs(bk[0]), abs(bk[-1])) ** (deg + 1))
        if abs(gotf - want) > F(1, 10 ** 9) * scale:
            out.fail("integral-wrong", klass, f"Integrate.function(U={fU}, deg {deg}, {fam}, {case['nnodes']}) = {float(gotf)!r}, exact {float(want)!r}")
    elif gotf != want:
        out.fail("integral-wrong", klass, f"Integrate.function(U={fU}, deg {deg}, {fam}, {case['nnodes']}) = {got}, exact {want}")


@st.composite
def lenght_cases(draw):
    nseg = draw(st.integers(1, 8))
    a, b = draw(gen.intervals())
    grid = draw(st.sampled_from([8, 12, 16, 24]))
    k = min(nseg - 1, grid - 1)
    js = sorted(draw(st.lists(st.integers(1, grid - 1), min_size=k, max_size=k, unique=True)))
    U = [a, a]
    jumps = []
    for j in js:
        z = a + (b - a) * F(j, grid)
        m = 2 if draw(st.integers(0, 5)) == 0 else 1
        U += [z] * m
        jumps.append(m == 2)
    U += [b, b]
    n = len(U) - 2
    dim = draw(st.sampled_from([2, 2, 3]))
    P = draw(st.lists(st.lists(st.integers(-20, 20).map(lambda v: F(v, 4)), min_size=dim, max_size=dim),
                      min_size=n, max_size=n))
    # optionally a polynomial weight g(u) of degree <= 2 (values of either sign) integrated by an explicit rule
    g = None
    if draw(st.integers(0, 2)) == 0:
        g = [draw(st.integers(-6, 6).map(lambda v: F(v, 2))) for _ in range(draw(st.integers(1, 3)))]
    return {"U": U, "P": P, "num": draw(st.sampled_from(["float", "npfloat", "fracknots"])), "g": g,
            "fam": draw(st.sampled_from(["closed", "open", "cheb", "gauss"])), "nnodes": draw(st.integers(3, 5))}


def check_lenght(case, out):
    from compmec.nurbs.calculus import Integrate
    num = case["num"]
    if num == "fracknots":
        U = [F(u) for u in case["U"]]
        P = np.array([[float(x) for x in pt] for pt in case["P"]], dtype="float64")
    else:
        U = [lib.conv_knot(u, num) for u in case["U"]]
        P = lib.conv_points(case["P"], num)
    curve = lib.Curve(U, P)
    fU = [oracle.frac(u) for u in U]
    pts = [tuple(oracle.frac(x) for x in pt) for pt in P]
    bk = oracle.breaks(fU)
    out.cls("num=" + num, f"segments={len(bk) - 1}")
    # control point index of each segment: segment k spans bk[k], bk[k+1]
    total = 0.0
    st_ = State(fU, 1, pts, None, False)
    for lo, hi in zip(bk[:-1], bk[1:]):
        pa = oracle.ceval(st_, lo)
        m = (lo + hi) / 2
        pm = oracle.ceval(st_, m)
        d2 = sum((2 * (x - y)) ** 2 for x, y in zip(pm, pa))
        total += float(d2) ** 0.5
    has_jump = any(oracle.mult(fU, z) == 2 for z in bk[1:-1])
    if has_jump:
        out.cls("jump")
    out.nontrivial = len(bk) >= 4
    snap = lib.snapshot(curve)
    got = Integrate.lenght(curve)
    if lib.snapshot(curve) != snap:
        out.fail("operand-modified", "lenght", "Integrate.lenght changed the curve")
    if abs(float(got) - total) > 1e-9 * max(1.0, total):
        out.fail("lenght-wrong", ("jump" if has_jump else "continuous") + ";" + num,
                 f"Integrate.lenght of polyline U={fU} P={pts} = {float(got)!r}, sum of segment lengths {total!r}")
    if case.get("g"):
        # int g(u) |C'(u)| du = sum over the segments of (length / span) * int_span g, g a polynomial of degree <= 2
        coef = case["g"]
        out.cls("weighted", "weight-takes-negative-values" if any(
            sum(c * u ** i for i, c in enumerate(coef)) < 0 for u in bk) else "weight-non-negative-at-knots")

        def gfun(u):
            return sum(float(c) * u ** i for i, c in enumerate(coef))

        def prim(u):
            return sum(c * u ** (i + 1) / (i + 1) for i, c in enumerate(coef))
        want = 0.0
        for lo, hi in zip(bk[:-1], bk[1:]):
            pa, pm = oracle.ceval(st_, lo), oracle.ceval(st_, (lo + hi) / 2)
            seglen = float(sum((2 * (x - y)) ** 2 for x, y in zip(pm, pa))) ** 0.5
            want += seglen / float(hi - lo) * float(prim(hi) - prim(lo))
        gotw = Integrate.lenght(curve, gfun, METHODS[case["fam"]], case["nnodes"])
        scale = max(1.0, total * max(abs(float(prim(hi) - prim(lo))) for lo, hi in zip(bk[:-1], bk[1:])), abs(want))
        if abs(float(gotw) - want) > 1e-8 * scale:
            out.fail("lenght-wrong", "weighted;" + case["fam"] + ";" + num,
                     f"Integrate.lenght(curve, g, {METHODS[case['fam']]}, {case['nnodes']}) with g = {coef} (ascending powers) on polyline "
                     f"U={fU} P={pts} = {float(gotw)!r}, exact {want!r}")


FACETS = [
    Facet("rules", lambda tier: rule_cases(12 if tier == "quick" else 16), check_rules, quick=600, thorough=5000,
          rule="request histories in forked pristine processes"),
    Facet("scalar", lambda tier: scalar_cases(("frac", "frac", "float")), check_scalar, quick=1200, thorough=8000,
          rule="Integrate.scalar vs closed form / exact product integral"),
    Facet("function", lambda tier: function_cases(), check_function, quick=900, thorough=6000,
          rule="Integrate.function on global and per-span polynomials"),
    Facet("lenght", lambda tier: lenght_cases(), check_lenght, quick=600, thorough=5000,
          rule="polyline length"),
]
