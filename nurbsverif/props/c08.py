"""C08 - curve arithmetic is pointwise."""
from fractions import Fraction as F

import numpy as np
from hypothesis import strategies as st

from .. import gen, lib, oracle
from ..runner import Facet

RULE = ("one operator per case out of + - * @ / neg and the scalar forms (s+A, A+s, s-A, A-s, s*A, A*s, A/s, s/A, "
        "M@A, A@M) on pairs of curves sharing an interval (degrees 0..3 independent, interior knots on a common grid: "
        "shared knots with different multiplicities, disjoint knots, different degrees), polynomial/rational in all "
        "combinations, scalar and vector points; plus pairs on different intervals. The identity R(u) = op(A(u), B(u)) "
        "is decided exactly per case with deg(R)+deg(A)+deg(B)+1 samples strictly inside every span of the union "
        "breakpoints. Non-trivial: a curve-curve operator where both operands have interior knots, or degrees differ "
        "with an interior knot, or a shared knot has different multiplicities; scalar forms: an interior knot")
ASSUMPTIONS = [
    "oracle: exact reference evaluation of operand and result states; identity decided by polynomial degree count",
    "division: the divisor has strictly positive control values (and weights), hence no zero",
    "float profile: |R(u) - op(A(u),B(u))| <= 1e-9 * scale at the same sample points",
]

BINOPS = ["add", "sub", "mul", "matmul", "div"]
SCALAROPS = ["neg", "radd", "adds", "rsub", "subs", "rmul", "muls", "divs", "rdiv", "rmatmul", "matmuls"]


def positive_values():
    return st.builds(lambda a, d: F(a, d), st.integers(1, 12), st.sampled_from([1, 2, 3, 5]))


@st.composite
def cases(draw, nums=("frac",), ops=None, alike=False):
    op = draw(st.sampled_from(ops or (BINOPS * 3 + SCALAROPS)))
    num = draw(st.sampled_from(list(nums)))
    (U, p), (V, q) = draw(gen.same_interval_pair(pmax=3, kmax=3, alike=alike))
    nA, nB = len(U) - p - 1, len(V) - q - 1
    ratA = draw(st.integers(0, 2)) == 0
    ratB = draw(st.integers(0, 2)) == 0
    dimA = dimB = 0
    # vector dimension: 2 or 3, or one that coincides with a number of control points in play (operand, sum, product)
    vdim = draw(gen.point_dim([nA, nB, nA + nB - 1, nA + nB, max(nA, nB) + 1]))
    if op in ("add", "sub"):
        dimA = dimB = draw(st.sampled_from([0, 0, vdim, vdim]))
    elif op == "mul":
        dimA, dimB = draw(st.sampled_from([(0, 0), (0, 0), (vdim, 0), (0, vdim), (vdim, 0)]))
    elif op == "matmul":
        dimA = dimB = vdim
    elif op == "div":
        dimA = draw(st.sampled_from([0, 0, vdim]))
    elif op in ("rmatmul", "matmuls"):
        dimA = 2
    elif op == "rdiv":
        dimA = 0
    else:
        dimA = draw(st.sampled_from([0, 0, 2]))
    PA = draw(gen.ctrlpoints(nA, dimA, positive_values() if op == "rdiv" else None))
    PB = draw(gen.ctrlpoints(nB, dimB, positive_values() if op == "div" else None))
    if op in ("rdiv", "div") and draw(st.integers(0, 2)) == 0:
        # a divisor that is negative on the whole interval has no zero either
        if op == "rdiv":
            PA = [-x for x in PA]
        else:
            PB = [-x for x in PB]
    A = {"U": U, "p": p, "P": PA, "w": draw(gen.pos_weights(nA)) if ratA else None, "num": num}
    B = {"U": V, "p": q, "P": PB, "w": draw(gen.pos_weights(nB)) if ratB else None, "num": num}
    s = draw(st.sampled_from([F(0), F(1), F(-1), F(2), F(-3, 2), F(5, 7), F(1, 3), F(3), F(-7), F(12)]))
    if op in ("divs",) and s == 0:
        s = F(3)
    M = draw(st.lists(st.lists(gen.small_fracs(-3, 3, (1, 2)), min_size=2, max_size=2), min_size=2, max_size=2))
    return {"op": op, "A": A, "B": B, "s": s, "M": M, "Mvec": draw(st.booleans()),
            "twin_first": draw(st.integers(0, 2)) == 0,
            "other_interval": draw(st.integers(0, 9)) == 0,
            "history": draw(st.sampled_from(lib.HISTORY_MODES)),
            "sform": draw(st.sampled_from(["frac", "int", "npint"]))}


# ---- tuple arithmetic on reference values
def t_add(a, b):
    return tuple(x + y for x, y in zip(a, b))


def t_sub(a, b):
    return tuple(x - y for x, y in zip(a, b))


def t_scale(a, s):
    return tuple(x * s for x in a)


def t_mul(a, b):
    if len(a) == 1:
        return t_scale(b, a[0])
    if len(b) == 1:
        return t_scale(a, b[0])
    raise lib.HarnessError("vector * vector")


def check(case, out):
    op = case["op"]
    num = case["A"]["num"]
    exact = lib.is_exact(num)
    a, b = lib.case_state(case["A"]), lib.case_state(case["B"])
    A, B = lib.build_curve(case["A"]), lib.build_curve(case["B"])
    if case.get("history"):
        # object history: A was constructed with other data, used in arithmetic with B, then re-assigned
        out.cls("history=" + case["history"])

        def use(curve):
            lib.default_use(curve)
            for fn in (lambda: curve + B, lambda: curve * B, lambda: curve / B, lambda: B - curve, lambda: -curve):
                try:
                    fn()
                except Exception as exc0:
                    if not lib.from_library(exc0) and not isinstance(exc0, (ValueError, TypeError, ZeroDivisionError)):
                        raise
        A = lib.build_curve_history(case["A"], case["history"], use)
        if lib.state_of(A).key() != a.key():
            out.exclude("setter-history-did-not-reach-the-state (C15 territory)")
            return
    s = lib.conv_val(case["s"], num)
    if exact and F(case["s"]).denominator == 1 and case.get("sform", "frac") != "frac":
        # an integral scalar as a plain int / numpy integer: exact data must stay exact
        s = int(case["s"]) if case["sform"] == "int" else np.int64(int(case["s"]))
        out.cls("scalar-as-" + case["sform"])
    fs = oracle.frac(s)
    Mf = [[oracle.frac(lib.conv_val(x, num)) for x in row] for row in case["M"]]
    if exact:
        M = np.array([[F(x) for x in row] for row in Mf], dtype=object)
    else:
        M = np.array([[float(x) for x in row] for row in Mf], dtype="float64")
    if case["Mvec"]:
        M, Mf = M[0], Mf[0]
        Mleft = tuple(M)  # a numpy array on the left would hijack the operator: use plain sequences
    else:
        Mleft = tuple(tuple(row) for row in M)
    binop = op in BINOPS
    kinds = ("R" if a.w is not None else "P") + (("R" if b.w is not None else "P") if binop else "")
    bkA, bkB = oracle.breaks(a.U)[1:-1], oracle.breaks(b.U)[1:-1]
    shared = [z for z in bkA if z in bkB]
    sharedmult = any(oracle.mult(a.U, z) != oracle.mult(b.U, z) for z in shared)
    out.cls("op=" + op, "kinds=" + kinds, "num=" + num)
    if binop:
        struct = ("degdiff" if a.p != b.p else "degsame") + ("+A" if bkA else "") + ("+B" if bkB else "")
        out.cls("struct=" + struct)
        if sharedmult:
            out.cls("shared-knot-different-mult")
        if F(0) in bkA or F(0) in bkB:
            out.cls("knot==0")
        out.nontrivial = bool(bkA and bkB) or (a.p != b.p and bool(bkA or bkB)) or sharedmult
        vec = ("vecA" if not a.scalar else "") + ("vecB" if not b.scalar else "")
        klass = f"{op};{kinds};{struct};{vec or 'scalar'}"
    else:
        out.nontrivial = bool(bkA)
        klass = f"{op};{kinds};{'vec' if not a.scalar else 'scalar'}"
    if not exact:
        klass += ";float"
    snapA, snapB = lib.snapshot(A), lib.snapshot(B)

    if binop and case["other_interval"]:
        out.cls("different-interval")
        B2 = lib.build_curve(dict(case["B"], U=[u + 1 for u in case["B"]["U"]]))
        fn = {"add": lambda: A + B2, "sub": lambda: A - B2, "mul": lambda: A * B2,
              "matmul": lambda: A @ B2, "div": lambda: A / B2}[op]
        try:
            r = fn()
            out.fail("different-interval-accepted", op, f"{op} of curves on {a.limits} and shifted interval returned {r!r}")
        except ValueError:
            pass
        return

    fns = {
        "add": lambda: A + B, "sub": lambda: A - B, "mul": lambda: A * B, "matmul": lambda: A @ B,
        "div": lambda: A / B, "neg": lambda: -A, "radd": lambda: s + A, "adds": lambda: A + s,
        "rsub": lambda: s - A, "subs": lambda: A - s, "rmul": lambda: s * A, "muls": lambda: A * s,
        "divs": lambda: A / s, "rdiv": lambda: s / A, "rmatmul": lambda: Mleft @ A, "matmuls": lambda: A @ M,
    }

    def matvec(Mx, v):
        if case["Mvec"]:
            return (sum(x * y for x, y in zip(Mx, v)),)
        return tuple(sum(x * y for x, y in zip(row, v)) for row in Mx)

    def vecmat(v, Mx):
        if case["Mvec"]:
            return (sum(x * y for x, y in zip(v, Mx)),)
        return tuple(sum(v[i] * Mx[i][j] for i in range(len(v))) for j in range(len(Mx[0])))

    ref = {
        "add": lambda x, y: t_add(x, y), "sub": lambda x, y: t_sub(x, y), "mul": lambda x, y: t_mul(x, y),
        "matmul": lambda x, y: (sum(p_ * q_ for p_, q_ in zip(x, y)),),
        "div": lambda x, y: t_scale(x, 1 / y[0]),
        "neg": lambda x, y: t_scale(x, -1), "radd": lambda x, y: tuple(fs + c for c in x),
        "adds": lambda x, y: tuple(c + fs for c in x), "rsub": lambda x, y: tuple(fs - c for c in x),
        "subs": lambda x, y: tuple(c - fs for c in x), "rmul": lambda x, y: t_scale(x, fs),
        "muls": lambda x, y: t_scale(x, fs), "divs": lambda x, y: t_scale(x, 1 / fs),
        "rdiv": lambda x, y: (fs / x[0],), "rmatmul": lambda x, y: matvec(Mf, x), "matmuls": lambda x, y: vecmat(x, Mf),
    }[op]
    if exact and binop and case.get("twin_first"):
        # history: the same operator on float twins first (value-keyed caches must not leak floats)
        out.cls("float-twin-first")
        try:
            Af, Bf = lib.build_curve(dict(case["A"], num="float")), lib.build_curve(dict(case["B"], num="float"))
            {"add": lambda: Af + Bf, "sub": lambda: Af - Bf, "mul": lambda: Af * Bf, "matmul": lambda: Af @ Bf,
             "div": lambda: Af / Bf}[op]()
        except Exception as exc0:
            if not lib.from_library(exc0):
                raise
    R = fns[op]()
    if lib.snapshot(A) != snapA or (binop and lib.snapshot(B) != snapB):
        out.fail("operand-modified", klass, f"{op} changed an operand")
    if not isinstance(R, lib.Curve):
        out.fail("result-type", klass, f"{op} returned {type(R).__name__}")
        return
    r = lib.state_of(R)
    if r.limits != a.limits:
        out.fail("result-interval", klass, f"{op}: result on {r.limits}, operands on {a.limits}")
        return
    if exact:
        bad = lib.inexact_leaf([R.ctrlpoints, R.weights or []])
        if bad is not None and case.get("twin_first"):
            out.fail("float-leaked-into-exact-result", klass, f"{op} on Fraction data returned a {type(bad).__name__} ({bad!r}) after the same operator ran on float twins")
            return
    m = r.p + a.p + (b.p if binop else 0) + 1
    bk = oracle.union_breaks(a.U, b.U if binop else a.U, r.U)
    scale = max([abs(c) for pt in (a.P + (b.P if binop else [])) for c in pt] + [F(1)])
    tol = F(0) if exact else F(1, 10 ** 9) * scale * scale
    for lo, hi in zip(bk[:-1], bk[1:]):
        for u in oracle.interior_samples(lo, hi, m):
            va = oracle.ceval(a, u)
            vb = oracle.ceval(b, u) if binop else None
            want = ref(va, vb)
            got = oracle.ceval(r, u)
            if len(got) != len(want):
                out.fail("shape", klass, f"{op}: result has {len(got)} components, expected {len(want)}")
                return
            dev = max(abs(x - y) for x, y in zip(got, want))
            if dev > tol:
                out.fail("not-pointwise", klass,
                         f"{op} at u={u}: result {tuple(map(str, got))}, op(A(u),B(u)) = {tuple(map(str, want))} "
                         f"[A: U={list(map(str, a.U))} P={a.P} w={a.w}; B: U={list(map(str, b.U))} P={b.P} w={b.w}; s={fs}]")
                return
    # aliasing: the result owns its state - changing it (also in place, for numpy points) leaves the operands alone
    try:
        for pt in R.ctrlpoints:
            if isinstance(pt, np.ndarray):
                pt += 1
        if R.degree < 5:
            R.degree_increase(1)
        zmid = (R.knotvector[0] + R.knotvector[-1]) / 2
        if R.knotvector.mult(zmid) < R.degree + 1:
            R.knot_insert([zmid])
    except Exception as exc:
        if not lib.from_library(exc):
            raise
    if lib.snapshot(A) != snapA or (binop and lib.snapshot(B) != snapB):
        out.fail("result-shares-state-with-operand", klass, f"{op}: mutating the result changed an operand")
        return
    R = fns[op]()
    # the library's own evaluation of the result agrees at one point (keeps C01 and C08 tied together)
    u0 = (bk[0] + bk[1]) / 2
    try:
        v = lib.point_tuple(R(u0 if exact else float(u0)))
        want = ref(oracle.ceval(a, oracle.frac(u0 if exact else float(u0))),
                   oracle.ceval(b, oracle.frac(u0 if exact else float(u0))) if binop else None)
        if max(abs(x - y) for x, y in zip(v, want)) > (tol if not exact else 0):
            out.fail("not-pointwise-libeval", klass, f"{op}: R({u0}) = {v}, expected {want}")
    except ValueError as exc:
        out.fail("result-not-evaluable", klass, f"{op}: R({u0}) raised {exc}")


FACETS = [
    Facet("curve-curve", lambda tier: cases(("frac",), BINOPS), check, quick=500, thorough=8000,
          rule="A op B for op in + - * @ /", case_timeout=120),
    Facet("curve-curve-alike", lambda tier: cases(("frac",), BINOPS, alike=True), check, quick=200, thorough=3000,
          rule="operands that look alike: same distinct knots with other multiplicities (same degree / same npts), or "
               "identical knot vectors", case_timeout=120),
    Facet("scalar", lambda tier: cases(("frac",), SCALAROPS), check, quick=300, thorough=5000,
          rule="unary minus and the scalar / matrix forms"),
    Facet("float", lambda tier: cases(("float", "npfloat")), check, quick=200, thorough=3000,
          rule="float data, 1e-9"),
]
