"""C16 - results do not depend on the number representation."""
import math
from fractions import Fraction as F

import numpy as np
from hypothesis import strategies as st

from .. import gen, lib, oracle
from ..oracle import State
from ..runner import Facet

RULE = ("one operation per case out of evaluation, basis functions, knot insertion, knot removal, degree elevation, "
        "degree reduction, split, join, + - * / @, fit_curve, fit_points, default integration, on a small structural "
        "case (degree <= 3, <= 2 interior knots). exactness: Fraction knots with large numerators/denominators (6..40 "
        "digits, integers around 2^31, 2^53, 2^63, 2^64; int control points in ~30%): every number of the result must be "
        "int/Fraction and the result must equal the exact reference. differential: the same case as Fraction, float and "
        "numpy.float64: float results must agree with the exact run to 1e-9*scale. minimal point type: control points "
        "supporting only point+point and scalar*point through evaluation, insertion, elevation and splitting. "
        "Non-trivial: an operation other than evaluation on a vector with an interior knot")
ASSUMPTIONS = [
    "exactness of Derivate, Projection and Intersection is not claimed by the statement and not asserted",
    "float agreement only on well-conditioned inputs: degree <= 3, spans >= (b-a)/12, |P| <= 10",
    "the minimal point type raises TypeError for any operation other than Pt+Pt, scalar*Pt (either side) and Pt*scalar",
]

OPS = ["eval", "basis", "insert", "remove", "elevate", "reduce", "split", "join",
       "add", "sub", "mul", "div", "matmul", "fit_curve", "fit_points", "integrate", "lossy", "smul"]


# ----------------------------------------------------------------- number generators

def big_ints():
    edge = st.sampled_from([2 ** 31, 2 ** 53, 2 ** 63, 2 ** 64]).flatmap(
        lambda b: st.integers(b - 3, b + 3))
    return st.one_of(
        st.integers(10 ** 5, 10 ** 12), edge, edge,
        st.integers(10 ** 19, 10 ** 40),
    )


def big_fracs(signed=True):
    def mk(n, d, s):
        return F(s * n, d)
    return st.builds(mk, big_ints(), big_ints(), st.sampled_from([1, 1, -1] if signed else [1]))


def shape_for_op(case):
    """Construction instead of rejection: default integration is defined for scalar polynomial curves only."""
    if case["op"] == "integrate":
        A = dict(case["A"])
        A["P"] = [pt[0] if isinstance(pt, (list, tuple)) else pt for pt in A["P"]]
        A["w"] = None
        case = dict(case, A=A)
    return case


@st.composite
def big_structure(draw):
    """Curve case with big rational numbers; second curve on the same interval."""
    p = draw(st.integers(0, 3))
    a = draw(big_fracs())
    length = draw(st.one_of(big_fracs(False), st.sampled_from([F(1), F(3, 7)])))
    if length < F(1, 2):
        length = 1 / length if length < F(1, 10 ** 6) else F(1, 2) + length
    b = a + length
    k = draw(st.integers(0, 2))
    # interior knots well separated (the library conflates knots closer than 1e-6): grid position + tiny big-rational offset
    js = sorted(draw(st.lists(st.integers(1, 6), min_size=k, max_size=k, unique=True)))
    ts = [F(j, 7) + F(1, draw(big_ints())) for j in js]
    U = [a] * (p + 1)
    for t in ts:
        U += [a + length * t] * draw(st.integers(1, max(1, p)))
    U += [b] * (p + 1)
    n = len(U) - p - 1
    dim = draw(st.sampled_from([0, 0, 2]))
    intpoints = draw(st.integers(0, 9)) < 4
    val = big_ints().map(lambda v: F(v)) if intpoints else big_fracs()
    P = draw(gen.ctrlpoints(n, dim, val))
    rational = draw(st.integers(0, 3)) == 0
    wgt = st.builds(lambda nn, d: 1 + 9 * F(nn % d, d), big_ints(), big_ints())
    w = draw(st.lists(wgt, min_size=n, max_size=n)) if rational else None
    if rational and draw(st.booleans()):
        # Python-int weights (and int control points where integral): exact data all the same
        w = draw(st.lists(st.integers(1, 9).map(F), min_size=n, max_size=n))
        intpoints = True
    q = draw(st.integers(0, 2))
    V = [a] * (q + 1) + [b] * (q + 1)
    if draw(st.booleans()) and ts:
        V = [a] * (q + 1) + [a + length * ts[0]] * draw(st.integers(1, q + 1)) + [b] * (q + 1)
    m = len(V) - q - 1
    Q = draw(gen.ctrlpoints(m, dim if draw(st.booleans()) else 0, big_fracs(False)))
    return shape_for_op({"A": {"U": U, "p": p, "P": P, "w": w, "num": "fracint" if intpoints else "frac"},
            "B": {"U": V, "p": q, "P": Q, "w": None, "num": "frac"},
            "op": draw(st.sampled_from(OPS + ["smul", "smul", "lossy"])), "t": draw(st.sampled_from([F(1, 3), F(2, 5), F(1, 2)])),
            "profile": "big", "order": draw(st.sampled_from(lib.SEQ_ORDERS))})


@st.composite
def small_structure(draw):
    p = draw(st.integers(0, 3))
    a, b = draw(gen.intervals())
    U, _ = draw(gen.knotvectors(degree=p, kmax=2, interval=(a, b), grid=12, max_mult_bias=False))
    # keep interior multiplicities <= p (continuous) so that float comparisons are not taken across jumps
    keep, cnt = [], {}
    for u in U:
        cnt[u] = cnt.get(u, 0) + 1
        if u in (U[0], U[-1]) or cnt[u] <= max(p, 1):
            keep.append(u)
    U = keep
    n = len(U) - p - 1
    dim = draw(st.sampled_from([0, 0, 2]))
    P = draw(gen.ctrlpoints(n, dim))
    w = draw(gen.pos_weights(n)) if draw(st.integers(0, 2)) == 0 else None  # one case in three is rational
    anum = "frac"
    if w is not None and draw(st.booleans()):
        w = draw(st.lists(st.integers(1, 9).map(F), min_size=n, max_size=n))  # Python-int weights
        anum = "fracint"
    q = draw(st.integers(0, 2))
    V = [a] * (q + 1) + [b] * (q + 1)
    m = len(V) - q - 1
    Q = draw(gen.ctrlpoints(m, dim if draw(st.booleans()) else 0,
                            st.builds(lambda x, d: F(x, d), st.integers(1, 12), st.sampled_from([1, 2, 3]))))
    return shape_for_op({"A": {"U": U, "p": p, "P": P, "w": w, "num": anum},
            "B": {"U": V, "p": q, "P": Q, "w": None, "num": "frac"},
            "op": draw(st.sampled_from(OPS + ["smul", "smul", "lossy"])), "t": draw(st.sampled_from([F(1, 3), F(2, 5), F(1, 2)])),
            "profile": "small", "float_first": draw(st.booleans()), "order": draw(st.sampled_from(lib.SEQ_ORDERS))})


# ----------------------------------------------------------------- operation runner

class Skip(Exception):
    pass


def build_state_curve(s, num):
    P = [pt[0] for pt in s.P] if s.scalar else [list(pt) for pt in s.P]
    return lib.build_curve({"U": s.U, "P": P, "w": s.w, "num": num})


def run_op(case, num):
    """Run the operation with number profile ``num``.
    Returns (items, raw) where items is a list of ('state', State) / ('value', tuple) / ('piece', State, lo, hi)
    and raw is the list of library objects to walk for number types."""
    op = case["op"]
    cA = dict(case["A"], num=num if not (num == "frac" and case["A"]["num"] == "fracint") else "fracint")
    cB = dict(case["B"], num=num)
    a = lib.case_state(cA)
    b = lib.case_state(cB)
    A = lib.build_curve(cA)
    bk = oracle.breaks(a.U)
    t = case["t"]

    def K(x):
        return lib.conv_knot(x, num)
    if op == "eval":
        us = [K(u) for u in gen.params_of(case["A"]["U"], 1, gen.NEAR)]
        vals = [A(u) for u in us] + [A(tuple(us))]
        return [("value", tuple(lib.point_tuple(v)), us[i]) for i, v in enumerate(vals[:-1])], vals
    if op == "basis":
        f = lib.Function([K(u) for u in case["A"]["U"]])
        if case["A"]["w"] is not None:
            f.weights = [lib.conv_val(x, num) for x in case["A"]["w"]]
        us = [K(u) for u in gen.params_of(case["A"]["U"], 1, gen.NEAR)]
        rows = [f[:, j](tuple(us)) for j in range(a.p + 1)]
        flat = tuple(oracle.frac(v) for tab in rows for row in tab for v in row)
        return [("value", flat, None)], rows
    if op == "insert":
        z = bk[0] + (bk[1] - bk[0]) * t
        nodes = [K(z)] + ([K(bk[1])] if len(bk) > 2 and oracle.mult(a.U, bk[1]) < a.p + 1 else [])
        A.knot_insert(nodes)
        return [("state", lib.state_of(A))], [A.ctrlpoints, A.weights, list(A.knotvector)]
    if op == "remove":
        z = bk[0] + (bk[1] - bk[0]) * t
        big = oracle.boehm_insert(a, z)
        C = build_state_curve(big, cA["num"])
        zl = [u for u in C.knotvector if oracle.frac(u) == oracle.frac(K(z))] or [K(z)]
        C.knot_remove([zl[0]])
        return [("state", lib.state_of(C))], [C.ctrlpoints, C.weights, list(C.knotvector)]
    if op == "elevate":
        A.degree_increase(1)
        return [("state", lib.state_of(A))], [A.ctrlpoints, A.weights, list(A.knotvector)]
    if op == "reduce":
        big = oracle.refine_state(a, oracle.elevated_vector(a.U, a.p, 1), a.p + 1)
        C = build_state_curve(big, cA["num"])
        C.degree_decrease(1)
        return [("state", lib.state_of(C))], [C.ctrlpoints, C.weights, list(C.knotvector)]
    if op == "split":
        z = bk[0] + (bk[1] - bk[0]) * t
        pieces = A.split([K(z)])
        items = [("state", lib.state_of(pc)) for pc in pieces]
        return items, [[pc.ctrlpoints, pc.weights, list(pc.knotvector)] for pc in pieces]
    if op == "join":
        z = bk[0] + (bk[1] - bk[0]) * t
        zf = oracle.frac(K(z))
        left, right = oracle.restrict_state(a, a.U[0], zf), oracle.restrict_state(a, zf, a.U[-1])
        if a.w is not None and t != F(1, 2):
            # the homogeneous scale of each operand is the caller's business: two times in three the weights of
            # each piece are brought to whole numbers by a common factor (same control points, same curve), so
            # that the int profiles really hand Python-int weights to the join (C16-k was caught in 2 seeds of 3)
            for pc in (left, right):
                den = 1
                for x in pc.w:
                    den = den * x.denominator // math.gcd(den, x.denominator)
                pc.w = [x * den for x in pc.w]
        J = build_state_curve(left, cA["num"]) | build_state_curve(right, cA["num"])
        return [("state", lib.state_of(J))], [J.ctrlpoints, J.weights, list(J.knotvector)]
    if op in ("add", "sub", "mul", "div", "matmul"):
        B = lib.build_curve(cB)
        if op in ("add", "sub"):
            if a.scalar != b.scalar:
                raise Skip()
            R = A + B if op == "add" else A - B
        elif op == "mul":
            if not a.scalar and not b.scalar:
                raise Skip()
            R = A * B
        elif op == "div":
            if not b.scalar:
                raise Skip()
            R = A / B
        else:
            if a.scalar or b.scalar:
                raise Skip()
            R = A @ B
        return [("state", lib.state_of(R))], [R.ctrlpoints, R.weights, list(R.knotvector)]
    if op == "fit_curve":
        if a.w is not None:
            raise Skip()
        z = bk[0] + (bk[1] - bk[0]) * t
        Ut = sorted(oracle.elevated_vector(a.U, a.p, 1) + [z])
        T = lib.Curve([K(u) for u in Ut])
        err = T.fit_curve(A)
        return [("state", lib.state_of(T)), ("value", (oracle.frac(err),), None)], [T.ctrlpoints, err]
    if op == "fit_points":
        n = a.n
        # well-conditioned admissible nodes: between the Greville abscissa and the middle of the support of N_i
        # (strictly increasing, node i inside supp N_i: Schoenberg-Whitney), so that the float twin is comparable
        nodes = []
        for i in range(n):
            mid = (a.U[i] + a.U[i + a.p + 1]) / 2
            grev = sum(a.U[i + 1:i + a.p + 1], F(0)) / a.p if a.p else mid
            nodes.append(grev + (mid - grev) * t)
        gaps = [(nodes[i + 1] - nodes[i], i) for i in range(n - 1)] or [(a.U[-1] - nodes[0], None)]
        gap, gi = max(gaps, key=lambda x: x[0])
        extra_node = (nodes[gi] + gap / 2) if gi is not None else (nodes[0] + a.U[-1]) / 2
        # both the square system (interpolation) and one extra node (least squares); (node, point) pairs in any order
        items, raws = [], []
        for extra in (False, True):
            zs = nodes + ([extra_node] if extra else [])
            ln = lib.reorder([K(z) for z in zs], case.get("order", "given"))
            data = [A(u) for u in ln]
            T = lib.Curve([K(u) for u in case["A"]["U"]])
            if case["A"]["w"] is not None:
                T.weights = [lib.conv_val(x, num) for x in case["A"]["w"]]
            T.fit_points(data, ln)
            items.append(("state", lib.state_of(T)))
            raws.append(T.ctrlpoints)
        return items, raws
    if op == "smul":
        # scalar forms with an integer scalar large enough for products to leave the 64-bit range
        sc = 3 * 10 ** 10 if num in ("frac", "fracint") else float(3 * 10 ** 10)
        R1, R2, R3 = sc * A, A * sc, -A
        return ([("state", lib.state_of(R1)), ("state", lib.state_of(R2)), ("state", lib.state_of(R3))],
                [R1.ctrlpoints, R2.ctrlpoints, R3.ctrlpoints])
    if op == "lossy":
        # a projection that really loses something: forced removal of a needed knot, or forced degree reduction
        if a.w is not None:
            raise Skip()
        inner = [z for z in bk[1:-1] if oracle.mult(a.U, z) <= a.p]
        if inner:
            zl = [u for u in A.knotvector if oracle.frac(u) == inner[0]]
            A.knot_remove([zl[0]], None)
        elif a.p >= 2:
            A.degree_decrease(1, None)
        else:
            raise Skip()
        return [("state", lib.state_of(A))], [A.ctrlpoints, A.weights, list(A.knotvector)]
    if op == "integrate":
        from compmec.nurbs.calculus import Integrate
        if a.w is not None or not a.scalar:
            raise Skip()
        val = Integrate.scalar(A)
        # also a degree-elevated twin (degree + 5): same function, the default rule then uses 6..9 nodes
        hi = oracle.refine_state(a, oracle.elevated_vector(a.U, a.p, 5), a.p + 5)
        val2 = Integrate.scalar(build_state_curve(hi, cA["num"]))
        return [("value", (oracle.frac(val),), None), ("value", (oracle.frac(val2),), None)], [val, val2]
    raise lib.HarnessError("unknown op " + op)


def expected(case, num="frac"):
    """Exact reference results for the operation (list parallel to run_op items)."""
    op = case["op"]
    cA = dict(case["A"])
    a = lib.case_state(cA)
    b = lib.case_state(case["B"])
    bk = oracle.breaks(a.U)
    t = case["t"]
    if op == "eval":
        return [("value", oracle.ceval(a, u)) for u in gen.params_of(case["A"]["U"], 1, gen.NEAR)]
    if op == "basis":
        us = gen.params_of(case["A"]["U"], 1, gen.NEAR)
        flat = []
        for j in range(a.p + 1):
            for i in range(a.n):
                for u in us:
                    flat.append(oracle.basis_row(a.U, a.p, j, u, a.w)[i])
        return [("value", tuple(flat))]
    if op in ("insert", "elevate", "remove", "reduce", "join", "fit_curve", "fit_points"):
        out = [("same", a)] * (2 if op == "fit_points" else 1)
        if op == "fit_curve":
            out.append(("value", (F(0),)))
        return out
    if op == "smul":
        def scaled(f):
            return State(a.U, a.p, [tuple(f * x for x in pt) for pt in a.P], a.w, a.scalar)
        return [("same", scaled(3 * 10 ** 10)), ("same", scaled(3 * 10 ** 10)), ("same", scaled(-1))]
    if op == "lossy":
        # differential between the number profiles: the exact run of the library on the same (rounded) data is the
        # reference (its correctness as a projection is what C05 / C06 / C11 decide)
        items, _ = run_op(dict(case, A=cA), "frac")
        return [("same", items[0][1])]
    if op == "split":
        z = bk[0] + (bk[1] - bk[0]) * t
        return [("piece", a, a.U[0], z), ("piece", a, z, a.U[-1])]
    if op in ("add", "sub", "mul", "div", "matmul"):
        return [("pointwise", a, b, op)]
    if op == "integrate":
        p = a.p
        v = ("value", (sum(a.P[i][0] * (a.U[i + p + 1] - a.U[i]) for i in range(a.n)) / (p + 1),))
        return [v, v]
    raise lib.HarnessError(op)


def pointwise_value(op, x, y):
    if op == "add":
        return tuple(p + q for p, q in zip(x, y))
    if op == "sub":
        return tuple(p - q for p, q in zip(x, y))
    if op == "mul":
        if len(x) == 1:
            return tuple(x[0] * q for q in y)
        return tuple(p * y[0] for p in x)
    if op == "div":
        return tuple(p / y[0] for p in x)
    return (sum(p * q for p, q in zip(x, y)),)


def compare(out, klass, items, exp, tol_scale):
    """tol_scale None -> exact comparison; else absolute tolerance."""
    if len(items) != len(exp):
        out.fail("result-shape", klass, f"{len(items)} result items, expected {len(exp)}")
        return
    for it, ex in zip(items, exp):
        if ex[0] == "value":
            got = it[1]
            want = ex[1]
            if len(got) != len(want):
                out.fail("result-shape", klass, f"value has {len(got)} numbers, expected {len(want)}")
                return
            dev = max([abs(g - w) for g, w in zip(got, want)] + [F(0)])
            if (dev != 0) if tol_scale is None else (dev > tol_scale):
                out.fail("wrong-value", klass, f"got {tuple(map(str, got))[:4]}, exact {tuple(map(str, want))[:4]} (dev {float(dev):.3e})")
                return
        elif ex[0] == "same":
            st_ = it[1]
            if tol_scale is None:
                wit = oracle.same_function(ex[1], st_)
                if wit is not None:
                    out.fail("wrong-function", klass, f"result differs from the exact curve at u={wit[0]}: {wit[2]} vs {wit[1]}")
                    return
            else:
                if st_.limits != ex[1].limits:
                    out.fail("wrong-function", klass, f"limits {st_.limits}")
                    return
                dev, where = oracle.max_deviation(ex[1], st_)
                if dev > tol_scale:
                    out.fail("wrong-function", klass, f"result deviates from the exact curve by {float(dev):.3e} at {float(where)}")
                    return
        elif ex[0] == "piece":
            st_, lo, hi = it[1], ex[2], ex[3]
            lo2, hi2 = st_.limits
            if tol_scale is None:
                if (lo2, hi2) != (lo, hi):
                    out.fail("wrong-function", klass, f"piece on {st_.limits}, expected [{lo},{hi}]")
                    return
                wit = oracle.same_function_on(ex[1], st_, lo, hi)
                if wit is not None:
                    out.fail("wrong-function", klass, f"piece differs at u={wit[0]}")
                    return
            else:
                if abs(lo2 - lo) > F(1, 10 ** 12) or abs(hi2 - hi) > F(1, 10 ** 12):
                    out.fail("wrong-function", klass, f"piece on {st_.limits}, expected [{lo},{hi}]")
                    return
                for k in range(1, 6):
                    u = lo2 + (hi2 - lo2) * F(k, 6)
                    dev = max(abs(x - y) for x, y in zip(oracle.ceval(ex[1], u), oracle.ceval(st_, u)))
                    if dev > tol_scale:
                        out.fail("wrong-function", klass, f"piece deviates by {float(dev):.3e} at {float(u)}")
                        return
        elif ex[0] == "pointwise":
            a, b, op = ex[1], ex[2], ex[3]
            r = it[1]
            m = (r.p + a.p + b.p + 1) if tol_scale is None else 3
            bks = oracle.union_breaks(a.U, b.U, r.U) if tol_scale is None else oracle.union_breaks(r.U)
            for lo, hi in zip(bks[:-1], bks[1:]):
                for u in oracle.interior_samples(lo, hi, m):
                    if u < a.U[0] or u > a.U[-1]:
                        continue
                    want = pointwise_value(op, oracle.ceval(a, u), oracle.ceval(b, u))
                    got = oracle.ceval(r, u)
                    dev = max(abs(x - y) for x, y in zip(got, want))
                    if (dev != 0) if tol_scale is None else (dev > tol_scale):
                        out.fail("wrong-function", klass, f"{op}: result at u={float(u)} differs from op(A(u),B(u)) by {float(dev):.3e}")
                        return


def check_exact(case, out):
    op = case["op"]
    a = lib.case_state(case["A"])
    inner = len(oracle.breaks(a.U)) > 2
    kind = ("rational" if a.w is not None else "polynomial")
    out.cls("op=" + op, kind, "intpoints" if case["A"]["num"] == "fracint" else "fracpoints",
            "interior-knot" if inner else "bezier", "profile=" + case["profile"])
    out.nontrivial = op != "eval" and inner
    klass = f"{op};{kind};{case['profile']}"
    wA = case["A"]["w"]
    wmax = max([abs(x) for x in wA if F(x).denominator == 1] + [1]) if wA else 1  # (integral weights are passed as ints)
    if case["A"]["num"] == "fracint" and any(abs(x) * wmax >= 2 ** 63 for x in lib.walk_numbers(case["A"]["P"])):
        # Python-int control points (or their products with Python-int weights, the homogeneous coordinates) beyond
        # the 64-bit range: numpy picks int64 / uint64 / float64 for them
        klass += ";int-points>=2^63"
        out.cls("int-points>=2^63")
    try:
        if case.get("float_first"):
            # history: the same operation on the float twin first (value-keyed caches must not leak floats)
            out.cls("float-run-first")
            try:
                run_op(case, "float")
            except Skip:
                pass
            except Exception as exc0:
                if not lib.from_library(exc0):
                    raise
        items, raw = run_op(case, "frac")
    except Skip:
        out.exclude("operand-shapes-not-applicable")
        return
    except Exception as exc:
        if not lib.from_library(exc):
            raise
        out.fail("raises", klass, f"{op} on exact rational data raised {type(exc).__name__}: {exc} at {lib.lib_site(exc)}")
        return
    bad = lib.inexact_leaf(raw)
    if bad is not None:
        out.fail("float-introduced", klass, f"{op} on exact rational data returned a {type(bad).__name__}: {bad!r}")
        return
    compare(out, klass, items, expected(case), None)


def check_differential(case, out):
    op = case["op"]
    a = lib.case_state(case["A"])
    inner = len(oracle.breaks(a.U)) > 2
    kind = ("rational" if a.w is not None else "polynomial")
    out.cls("op=" + op, kind, "interior-knot" if inner else "bezier")
    out.nontrivial = op != "eval" and inner
    scale = max([abs(x) for pt in a.P for x in pt] + [F(1)])
    b = lib.case_state(case["B"])
    scale_b = max([abs(x) for pt in b.P for x in pt] + [F(1)])
    if op in ("mul", "matmul"):
        scale = scale * scale_b
    if op == "smul":
        scale = scale * 3 * 10 ** 10
    tol = F(1, 10 ** 9) * scale * (100 if op in ("div",) else 1)
    for num in ("float", "npfloat"):
        klass = f"{op};{kind};{num}"
        try:
            items, raw = run_op(case, num)
        except Skip:
            out.exclude("operand-shapes-not-applicable")
            return
        # the float run starts from rounded data: compare with the exact result of the *rounded* case
        exp = expected_rounded(case, num)
        compare(out, klass, items, exp, tol)


def expected_rounded(case, num):
    def rnd(c):
        d = dict(c)
        d["U"] = [oracle.frac(lib.conv_knot(u, num)) for u in c["U"]]
        if isinstance(c["P"][0], (list, tuple)):
            d["P"] = [[oracle.frac(lib.conv_val(x, num)) for x in pt] for pt in c["P"]]
        else:
            d["P"] = [oracle.frac(lib.conv_val(x, num)) for x in c["P"]]
        if c["w"] is not None:
            d["w"] = [oracle.frac(lib.conv_val(x, num)) for x in c["w"]]
        d["num"] = "frac"
        return d
    c2 = dict(case, A=rnd(case["A"]), B=rnd(case["B"]))
    exp = expected(c2)
    if case["op"] == "eval":
        a = lib.case_state(c2["A"])
        us = [oracle.frac(lib.conv_knot(u, num)) for u in gen.params_of(case["A"]["U"], 1, gen.NEAR)]
        exp = [("value", oracle.ceval(a, u)) for u in us]
    if case["op"] == "basis":
        a = lib.case_state(c2["A"])
        us = [oracle.frac(lib.conv_knot(u, num)) for u in gen.params_of(case["A"]["U"], 1, gen.NEAR)]
        flat = []
        for j in range(a.p + 1):
            for i in range(a.n):
                for u in us:
                    flat.append(oracle.basis_row(a.U, a.p, j, u, a.w)[i])
        exp = [("value", tuple(flat))]
    if case["op"] == "split":
        a = lib.case_state(c2["A"])
        bk = oracle.breaks(a.U)
        z = oracle.frac(lib.conv_knot(oracle.breaks(lib.case_state(case["A"]).U)[0]
                                      + (oracle.breaks(lib.case_state(case["A"]).U)[1]
                                         - oracle.breaks(lib.case_state(case["A"]).U)[0]) * case["t"], num))
        exp = [("piece", a, a.U[0], z), ("piece", a, z, a.U[-1])]
    return exp


# ----------------------------------------------------------------- minimal point type

class Pt:
    """Supports only Pt + Pt and scalar * Pt (either side).  Everything else raises TypeError."""
    __array_ufunc__ = None

    def __init__(self, *c):
        self.c = tuple(c)

    def __add__(self, other):
        if not isinstance(other, Pt):
            raise TypeError("Pt + %s is not supported" % type(other).__name__)
        return Pt(*[x + y for x, y in zip(self.c, other.c)])

    def _scale(self, s):
        if isinstance(s, Pt) or not isinstance(s, (int, float, F, np.integer, np.floating)):
            raise TypeError("Pt * %s is not supported" % type(s).__name__)
        return Pt(*[s * x for x in self.c])

    def __mul__(self, s):
        return self._scale(s)

    def __rmul__(self, s):
        return self._scale(s)

    def __repr__(self):
        return f"Pt{self.c}"


@st.composite
def pt_cases(draw):
    c = draw(gen.curves(0, 3, 2, nums=("frac", "float"), rational=False, dim=2))
    return {"curve": c, "op": draw(st.sampled_from(["eval", "insert", "elevate", "split"])),
            "t": draw(st.sampled_from([F(1, 3), F(1, 2), F(3, 4)]))}


def check_pt(case, out):
    c = case["curve"]
    num = c["num"]
    exact = lib.is_exact(num)
    ref = lib.case_state(c)
    op = case["op"]
    bk = oracle.breaks(ref.U)
    out.cls("op=" + op, "num=" + num, "interior-knot" if len(bk) > 2 else "bezier")
    out.nontrivial = op != "eval" and len(bk) > 2
    klass = f"Pt;{op};{num}"
    U = [lib.conv_knot(u, num) for u in c["U"]]
    pts = [Pt(*[lib.conv_val(x, num) for x in pt]) for pt in c["P"]]
    tol = F(0) if exact else F(1, 10 ** 9) * max([abs(x) for pt in ref.P for x in pt] + [F(1)])

    def as_state(curve):
        return State(list(curve.knotvector), curve.degree,
                     [tuple(oracle.frac(x) for x in q.c) for q in curve.ctrlpoints], None, False)
    try:
        curve = lib.Curve(U, pts)
        z = bk[0] + (bk[1] - bk[0]) * case["t"]
        if op == "eval":
            for u in gen.params_of(c["U"], 1):
                lu = lib.conv_knot(u, num)
                v = curve(lu)
                if not isinstance(v, Pt):
                    out.fail("result-type", klass, f"curve({lu}) returned {type(v).__name__}")
                    return
                want = oracle.ceval(ref, oracle.frac(lu))
                if max(abs(oracle.frac(x) - y) for x, y in zip(v.c, want)) > tol:
                    out.fail("wrong-value", klass, f"curve({lu}) = {v}, exact {want}")
                    return
            return
        if op == "insert":
            curve.knot_insert([lib.conv_knot(z, num)])
            res = [as_state(curve)]
        elif op == "elevate":
            curve.degree_increase(1)
            res = [as_state(curve)]
        else:
            res = [as_state(pc) for pc in curve.split([lib.conv_knot(z, num)])]
    except TypeError as exc:
        out.fail("unsupported-point-operation", klass, f"{op} needed more than point+point and scalar*point: {exc} at {lib.lib_site(exc)}")
        return
    for s in res:
        lo, hi = s.limits
        for k in range(1, 8):
            u = lo + (hi - lo) * F(k, 8)
            if max(abs(x - y) for x, y in zip(oracle.ceval(s, u), oracle.ceval(ref, u))) > tol:
                out.fail("wrong-function", klass, f"{op} with Pt control points changed the curve at u={float(u)}")
                return


FACETS = [
    Facet("exact-big", lambda tier: big_structure(), check_exact, quick=1500, thorough=8000,
          rule="large rationals: exact result and no float", case_timeout=120),
    Facet("exact-small", lambda tier: small_structure(), check_exact, quick=1500, thorough=6000,
          rule="small rationals: exact result and no float"),
    Facet("differential", lambda tier: small_structure(), check_differential, quick=600, thorough=5000,
          rule="float / numpy.float64 agree with the exact result to 1e-9*scale"),
    Facet("minimal-point-type", lambda tier: pt_cases(), check_pt, quick=400, thorough=3000,
          rule="control points with only point+point and scalar*point"),
]
