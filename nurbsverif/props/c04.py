"""C04 - knot insertion never changes the curve and yields exactly the requested knots."""
from fractions import Fraction as F

from hypothesis import strategies as st

from .. import gen, lib, oracle
from ..runner import Facet

RULE = ("curves (degree 0..4, <=4 distinct interior knots, any multiplicities, rational ~50%, scalar/vector "
        "points) with node multisets of size 0..5 drawn from existing knots, new positions, repeated nodes and "
        "the value 0, plus invalid requests (outside, multiplicity above degree+1, end knots). Non-trivial: a "
        "valid request on a vector with an interior knot that hits an existing knot or has >= 2 nodes, or any "
        "invalid request on a multi-span curve")
ASSUMPTIONS = [
    "same function decided exactly: p+1 (2p+1 rational) samples strictly inside every span, Fraction arithmetic",
    "result of insertion is unique: control points compared with oracle.refine_state",
    "float profile: deviation <= 1e-9*max(1,max|P|) at the sample set",
]


@st.composite
def node_multiset(draw, U, p, invalid):
    bk = gen.breaks_of(U)
    a, b = bk[0], bk[-1]
    inner = bk[1:-1]
    pool = []
    for lo, hi in zip(bk[:-1], bk[1:]):
        pool += [lo + (hi - lo) * t for t in (F(1, 2), F(1, 3), F(4, 5))]
        # "any rational knot values": positions whose denominators have 7 to 10 digits as well
        zbig = lo + (hi - lo) * draw(st.sampled_from([F(1234577, 7654321), F(2 ** 31 - 1, 2 ** 33 + 9), F(355, 1130)]))
        if all(abs(zbig - other) > (b - a) / 10 ** 4 for other in pool + [F(0)]):
            pool.append(zbig)  # (the library identifies knots closer than 1e-6: distinct positions stay well apart)
    if a < 0 < b:
        pool += [F(0)] * 3
    pool += inner * 3
    k = draw(st.integers(0 if not invalid else 0, 5))
    nodes = [draw(st.sampled_from(pool)) for _ in range(k)]
    if nodes and draw(st.booleans()):
        nodes.append(nodes[0])  # repeated node
    if invalid == "outside":
        d = draw(st.sampled_from([F(1, 100), F(1), F(5)]))
        nodes.insert(draw(st.integers(0, len(nodes))), draw(st.sampled_from([a - d, b + d])))
    elif invalid == "mult":
        z = draw(st.sampled_from(pool))
        cur = sum(1 for u in U if u == z) + nodes.count(z)
        nodes += [z] * max(1, p + 2 - cur)
    elif invalid == "end":
        which = draw(st.sampled_from(["a", "b", "ab"]))
        if "a" in which:
            nodes.append(a)
        if "b" in which:
            nodes.append(b)
    return nodes


@st.composite
def cases(draw, nums, invalid_kinds=(None,), pmax=4, kmax=4):
    c = draw(gen.curves(0, pmax, kmax, nums=nums, regimes="all"))
    invalid = draw(st.sampled_from(list(invalid_kinds)))
    nodes = draw(node_multiset(c["U"], c["p"], invalid))
    nodes = lib.reorder(nodes, draw(st.sampled_from(lib.SEQ_ORDERS)))  # requests need not list their nodes increasingly
    return {"curve": c, "nodes": nodes, "invalid": invalid, "twin_first": draw(st.integers(0, 2)) == 0,
            "container": draw(st.sampled_from(["list", "tuple", "ndarray", "gen", "iter", "map", "objarray"]))}


def check(case, out):
    c = case["curve"]
    num = c["num"]
    exact = lib.is_exact(num)
    ref = lib.case_state(c)
    curve = lib.build_curve(c)
    p = ref.p
    lnodes = [lib.conv_knot(z, num) for z in case["nodes"]]
    nodes = [oracle.frac(z) for z in lnodes]
    arg = lib.seq_form(lnodes, case["container"]) if case["container"] != "ndarray" else list(lnodes)
    if case["container"] == "ndarray" and not exact and lnodes:
        import numpy as _np
        arg = _np.array(lnodes, dtype="float64")
    out.cls("container=" + case["container"])
    U = ref.U
    bk = oracle.breaks(U)
    a, b = bk[0], bk[-1]
    newU = sorted(U + nodes)
    kind = "rational" if ref.w is not None else "polynomial"
    klass = kind + (";exact" if exact else ";float")
    out.cls("num=" + num, kind)
    # classify the request ourselves (do not trust case['invalid'])
    if any(z < a or z > b for z in nodes):
        req = "outside"
    elif any(oracle.mult(newU, z) > p + 1 for z in set(nodes)):
        req = "end-knot" if any(z in (a, b) for z in nodes) else "mult-above-degree+1"
    else:
        req = "valid"
    out.cls("request=" + req)
    hits_knot = any(z in bk[1:-1] for z in nodes)
    if F(0) in nodes:
        out.cls("node==0")
    if hits_knot:
        out.cls("node-at-existing-knot")
    if len(nodes) >= 2:
        out.cls("several-nodes")
    if any(nodes.count(z) >= 2 for z in nodes):
        out.cls("repeated-node")
    multi = len(bk) > 2
    if exact and case.get("twin_first"):
        # history: the same request on a float twin first (value-keyed caches must not leak floats)
        out.cls("float-twin-first")
        try:
            # (every other time with the very node objects of the exact request: a cache keyed by value *and*
            # type of the node still mixes up a float knot vector with the equal Fraction one)
            same = len(nodes) % 2 == 1
            lib.build_curve(dict(c, num="float")).knot_insert(list(lnodes) if same else [float(z) for z in nodes])
        except Exception as exc0:
            if not lib.from_library(exc0):
                raise
    snap = lib.snapshot(curve)
    try:
        curve.knot_insert(arg)
        exc = None
    except ValueError as e:
        exc = e
    if req != "valid":
        out.nontrivial = multi
        if exc is None:
            out.fail("invalid-request-accepted", f"{klass};{req}",
                     f"knot_insert({case['container']} {lnodes}) on U={U} accepted; now {list(curve.knotvector)}")
        elif lib.snapshot(curve) != snap:
            out.fail("atomicity", f"{klass};{req}",
                     f"knot_insert({case['container']} {lnodes}) on U={U} raised ValueError but changed the curve: "
                     f"ctrlpoints={curve.ctrlpoints}, U={list(curve.knotvector)}")
        return
    out.nontrivial = multi and (hits_knot or len(nodes) >= 2)
    sub = "node==0" if F(0) in nodes else ("at-knot" if hits_knot else "new-knot")
    if exc is not None and lib.refined_weight_vanishes(ref, newU, p):
        if lib.snapshot(curve) != snap:
            out.fail("atomicity", f"{klass};{sub}", f"insertion refused ({exc}) but the curve changed")
        out.exclude("refined-control-weight-vanishes (no finite (P, w) representation)")
        return
    if exc is not None:
        out.fail("valid-request-rejected", f"{klass};{sub}", f"knot_insert({case['container']} {lnodes}) on U={U}: ValueError {exc}")
        return
    after = lib.state_of(curve)
    if after.U != newU or after.p != p:
        out.fail("knotvector", f"{klass};{sub}", f"knot_insert({case['container']} {lnodes}) on U={U}: got {after.U} degree {after.p}, expected {newU}")
        return
    if len(after.P) != ref.n + len(nodes) or (after.w is not None and len(after.w) != len(after.P)):
        out.fail("npts", f"{klass};{sub}", f"{len(after.P)} control points for {ref.n}+{len(nodes)}")
        return
    if (after.w is None) != (ref.w is None):
        out.fail("weights-presence", f"{klass};{sub}", f"weights {ref.w} -> {after.w}")
        return
    if exact:
        wit = oracle.same_function(ref, after)
        if wit is not None:
            out.fail("function-changed", f"{klass};{sub}",
                     f"knot_insert({case['container']} {lnodes}) on U={U} P={ref.P} w={ref.w}: at u={wit[0]} before={wit[1]} after={wit[2]}")
            return
        if ref.w is None:
            exp = oracle.refine_state(ref, newU, p)
            if exp.P != after.P:
                out.fail("control-points", f"{klass};{sub}", f"got {after.P}, unique representation is {exp.P}")
    else:
        dev, where = oracle.max_deviation(ref, after)
        tol = F(1, 10 ** 9) * max([abs(x) for pt in ref.P for x in pt] + [F(1)])
        if dev > tol:
            out.fail("function-changed", f"{klass};{sub}", f"knot_insert({case['container']} {lnodes}) on U={U}: deviation {float(dev):.3e} at u={float(where)}")


FACETS = [
    Facet("valid-exact", lambda tier: cases(("frac", "frac", "fracint")), check, quick=1500, thorough=16000,
          rule="valid requests, Fraction data, exact decision"),
    Facet("invalid", lambda tier: cases(("frac", "float"), ("outside", "mult", "end")), check,
          quick=800, thorough=6000, rule="invalid requests must raise ValueError and leave the curve unchanged"),
    Facet("valid-float", lambda tier: cases(("float", "npfloat"), pmax=4, kmax=3), check, quick=600, thorough=5000,
          rule="valid requests, float data, 1e-9"),
]
