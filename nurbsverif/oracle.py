"""Independent reference models, exact rational arithmetic, pure Python.

Nothing in this module imports or calls compmec.nurbs.  A *state* is
    State(U, p, P, w)
with U a list of Fractions (the full knot vector), p the degree, P a list of
points (each a tuple of Fractions; scalars are 1-tuples, see ``scalar``), and
w a list of Fractions or None.
"""
from fractions import Fraction as F
from itertools import combinations


class OracleError(Exception):
    """Internal problem of the reference model (harness error, exit 2)."""


class ZeroControlWeight(Exception):
    """The reference was asked for a refined representation of a rational state in which a control weight is
    exactly 0 (only possible with weights of mixed sign): no finite (P, w) representation exists.  The runner
    counts the case as excluded."""


class NonFinite(Exception):
    """A NaN / infinity reached the exact conversion.  The generators never produce one, so it can only be a
    number returned by the code under test: the runner reports it as a failure of the case, not as a harness error."""


def frac(x):
    """Exact conversion of int / Fraction / float / numpy scalar to Fraction."""
    if isinstance(x, F):
        return x
    if isinstance(x, bool):
        raise OracleError("bool is not a number here")
    if isinstance(x, int):
        return F(x)
    if isinstance(x, float):
        if x != x or x in (float("inf"), float("-inf")):
            raise NonFinite(repr(x))
        return F(x)
    if hasattr(x, "item"):
        return frac(x.item())
    if hasattr(x, "numerator") and hasattr(x, "denominator"):
        return F(int(x.numerator), int(x.denominator))
    raise OracleError(f"cannot convert {type(x)} to Fraction")


class State:
    __slots__ = ("U", "p", "P", "w", "scalar")

    def __init__(self, U, p, P, w=None, scalar=False):
        self.U = [frac(u) for u in U]
        self.p = int(p)
        self.P = [tuple(frac(c) for c in pt) for pt in P]
        self.w = None if w is None else [frac(x) for x in w]
        self.scalar = scalar

    @property
    def n(self):
        return len(self.U) - self.p - 1

    @property
    def dim(self):
        return len(self.P[0])

    @property
    def limits(self):
        return (self.U[0], self.U[-1])

    def copy(self):
        return State(list(self.U), self.p, list(self.P),
                     None if self.w is None else list(self.w), self.scalar)

    def key(self):
        return (tuple(self.U), self.p, tuple(self.P),
                None if self.w is None else tuple(self.w))

    def __repr__(self):
        return f"State(U={self.U}, p={self.p}, P={self.P}, w={self.w})"


# ---------------------------------------------------------------- knot model

def breaks(U):
    out = []
    for u in U:
        if not out or u != out[-1]:
            out.append(u)
    return out


def spans(U):
    b = breaks(U)
    return list(zip(b[:-1], b[1:]))


def mult(U, z):
    return sum(1 for u in U if u == z)


def span_index(U, u):
    """k with U[k] <= u < U[k+1]; at max(U) the last non-empty span."""
    m = len(U)
    if u < U[0] or u > U[-1]:
        raise OracleError("parameter outside the knot vector")
    if u == U[-1]:
        for k in range(m - 2, -1, -1):
            if U[k] < U[k + 1]:
                return k
        raise OracleError("constant knot vector")
    for k in range(m - 1):
        if U[k] <= u < U[k + 1]:
            return k
    raise OracleError("span not found")


def wellformed(U, p):
    """The C03 predicate: clamped, sorted, interior mult <= p+1, n > p.
    Returns None when well formed, else a reason string."""
    m = len(U)
    if p < 0:
        return "negative degree"
    n = m - p - 1
    if n <= p:
        return "npts <= degree"
    for i in range(m - 1):
        if not U[i] <= U[i + 1]:
            return "not sorted"
    if U[0] == U[-1]:
        return "constant vector"
    if mult(U, U[0]) != p + 1:
        return "first knot not repeated degree+1 times"
    if mult(U, U[-1]) != p + 1:
        return "last knot not repeated degree+1 times"
    for z in breaks(U)[1:-1]:
        if mult(U, z) > p + 1:
            return "interior multiplicity above degree+1"
    return None


def infer_degree(U):
    """Degree implied by the leading block of a list (mult of first value - 1)."""
    return mult(U, U[0]) - 1


# ---------------------------------------------------------------- evaluation

def basis_all(U, j, u):
    """[N_{i,j}(u) for i in 0..len(U)-j-2] by the Cox-de Boor recursion
    (0/0 := 0, right-continuous, left limit at max(U))."""
    m = len(U)
    k = span_index(U, u)
    N = [F(0)] * (m - 1)
    N[k] = F(1)
    for d in range(1, j + 1):
        new = [F(0)] * (m - 1 - d)
        for i in range(m - 1 - d):
            v = F(0)
            if N[i] != 0:
                den = U[i + d] - U[i]
                if den != 0:
                    v += (u - U[i]) / den * N[i]
            if N[i + 1] != 0:
                den = U[i + d + 1] - U[i + 1]
                if den != 0:
                    v += (U[i + d + 1] - u) / den * N[i + 1]
            new[i] = v
        N = new
    return N


def basis_row(U, p, j, u, w=None):
    """The n values f[i, j](u), i = 0..n-1 (rational when w is given)."""
    n = len(U) - p - 1
    N = basis_all(U, j, u)[:n]
    if w is None:
        return N
    den = sum(wi * Ni for wi, Ni in zip(w, N))
    if den == 0:
        raise OracleError("weight function vanishes")
    return [wi * Ni / den for wi, Ni in zip(w, N)]


def hom_eval(st, u):
    """(numerator tuple, denominator) at u: N(u) = sum w_i N_i P_i, W(u)."""
    N = basis_all(st.U, st.p, u)[: st.n]
    dim = st.dim
    num = [F(0)] * dim
    den = F(0)
    for i, Ni in enumerate(N):
        if Ni == 0:
            continue
        wi = Ni if st.w is None else Ni * st.w[i]
        den += wi
        pt = st.P[i]
        for c in range(dim):
            num[c] += wi * pt[c]
    return tuple(num), den


def ceval(st, u):
    num, den = hom_eval(st, u)
    if den == 0:
        raise OracleError("weight function vanishes")
    return tuple(c / den for c in num)


def interior_samples(lo, hi, m):
    return [lo + (hi - lo) * F(k, m + 1) for k in range(1, m + 1)]


def union_breaks(*Us):
    s = set()
    for U in Us:
        s.update(U)
    return sorted(s)


def same_function(A, B):
    """Decide whether two (rational) spline states are the same function on
    the whole interval.  Returns None when equal, else a witness (u, a, b)."""
    if A.limits != B.limits:
        return ("limits", A.limits, B.limits)
    if A.dim != B.dim:
        return ("dim", A.dim, B.dim)
    rational = A.w is not None or B.w is not None
    m = (A.p + B.p + 1) if rational else (max(A.p, B.p) + 1)
    bk = union_breaks(A.U, B.U)
    for lo, hi in zip(bk[:-1], bk[1:]):
        for u in interior_samples(lo, hi, m):
            a, b = ceval(A, u), ceval(B, u)
            if a != b:
                return (u, a, b)
    return None


def max_deviation(A, B, extra=2):
    """max |A(u)-B(u)| (component max) over a sample set: used for float
    profiles.  Returns (dev, u)."""
    bk = union_breaks(A.U, B.U)
    m = max(A.p, B.p) + 1 + extra
    worst, where = F(0), None
    pts = list(bk)
    for lo, hi in zip(bk[:-1], bk[1:]):
        pts.extend(interior_samples(lo, hi, m))
    for u in pts:
        if u == bk[-1] or u in bk[1:-1]:
            continue
        a, b = ceval(A, u), ceval(B, u)
        d = max(abs(x - y) for x, y in zip(a, b))
        if d > worst:
            worst, where = d, u
    return worst, where


# ---------------------------------------------------------------- linear algebra

def linsolve(A, B):
    """Solve A X = B (A square list of lists of Fractions, B list of rows).
    Returns X or None when singular."""
    n = len(A)
    M = [list(map(F, A[i])) + list(map(F, B[i])) for i in range(n)]
    width = len(M[0])
    for c in range(n):
        piv = None
        for r in range(c, n):
            if M[r][c] != 0:
                piv = r
                break
        if piv is None:
            return None
        M[c], M[piv] = M[piv], M[c]
        pv = M[c][c]
        M[c] = [x / pv for x in M[c]]
        for r in range(n):
            if r != c and M[r][c] != 0:
                f = M[r][c]
                M[r] = [x - f * y for x, y in zip(M[r], M[c])]
    return [row[n:width] for row in M]


def rref(A):
    M = [list(map(F, row)) for row in A]
    rows = len(M)
    cols = len(M[0]) if rows else 0
    pivots = []
    r = 0
    for c in range(cols):
        piv = None
        for i in range(r, rows):
            if M[i][c] != 0:
                piv = i
                break
        if piv is None:
            continue
        M[r], M[piv] = M[piv], M[r]
        pv = M[r][c]
        M[r] = [x / pv for x in M[r]]
        for i in range(rows):
            if i != r and M[i][c] != 0:
                f = M[i][c]
                M[i] = [x - f * y for x, y in zip(M[i], M[r])]
        pivots.append(c)
        r += 1
        if r == rows:
            break
    return M, pivots


def rank(A):
    if not A:
        return 0
    return len(rref(A)[1])


def nullspace(A, cols):
    """Basis of {x : A x = 0}; A may be empty (then the identity basis)."""
    if not A:
        return [[F(int(i == j)) for j in range(cols)] for i in range(cols)]
    M, pivots = rref(A)
    free = [c for c in range(cols) if c not in pivots]
    basis = []
    for fc in free:
        v = [F(0)] * cols
        v[fc] = F(1)
        for r, pc in enumerate(pivots):
            v[pc] = -M[r][fc]
        basis.append(v)
    return basis


def matvec(A, x):
    return [sum(a * b for a, b in zip(row, x)) for row in A]


# ---------------------------------------------------------------- polynomials

def poly_mul(a, b):
    out = [F(0)] * (len(a) + len(b) - 1)
    for i, x in enumerate(a):
        if x == 0:
            continue
        for j, y in enumerate(b):
            out[i + j] += x * y
    return out


def poly_add(a, b, sb=1):
    n = max(len(a), len(b))
    out = [F(0)] * n
    for i, x in enumerate(a):
        out[i] += x
    for i, y in enumerate(b):
        out[i] += sb * y
    return out


def poly_eval(c, t):
    s = F(0)
    for ck in reversed(c):
        s = s * t + ck
    return s


def poly_der(c):
    return [k * c[k] for k in range(1, len(c))] or [F(0)]


def poly_degree(c):
    for k in range(len(c) - 1, -1, -1):
        if c[k] != 0:
            return k
    return -1


def poly_int01(c):
    return sum(ck / (k + 1) for k, ck in enumerate(c))


_VINV = {}


def _vander_inv(d):
    """Inverse of the Vandermonde matrix at t_k = (k+1)/(d+2), k=0..d."""
    if d not in _VINV:
        ts = [F(k + 1, d + 2) for k in range(d + 1)]
        V = [[t ** j for j in range(d + 1)] for t in ts]
        I = [[F(int(i == j)) for j in range(d + 1)] for i in range(d + 1)]
        _VINV[d] = (ts, linsolve(V, I))
    return _VINV[d]


def local_poly(func, lo, hi, d):
    """Coefficients (in t = (x-lo)/(hi-lo), lowest first) of the degree <= d
    polynomial that interpolates scalar ``func`` at d+1 interior points."""
    ts, Vinv = _vander_inv(d)
    ys = [func(lo + (hi - lo) * t) for t in ts]
    return matvec(Vinv, ys)


def component_func(st, c):
    """Scalar callable for component c of a *polynomial* state."""
    if st.w is not None:
        raise OracleError("component_func is for polynomial states")
    return lambda u: ceval(st, u)[c]


def numerator_state(st):
    """Polynomial state of the homogeneous numerator w_i P_i (or P_i)."""
    if st.w is None:
        return State(st.U, st.p, st.P, None, st.scalar)
    P = [tuple(wi * c for c in pt) for wi, pt in zip(st.w, st.P)]
    return State(st.U, st.p, P, None, st.scalar)


def denominator_state(st):
    w = st.w if st.w is not None else [F(1)] * st.n
    return State(st.U, st.p, [(x,) for x in w], None, True)


def integral_scalar(func, bk, d):
    """Exact integral of a piecewise polynomial (degree <= d per span of bk)."""
    total = F(0)
    for lo, hi in zip(bk[:-1], bk[1:]):
        total += (hi - lo) * poly_int01(local_poly(func, lo, hi, d))
    return total


def integral_product(f, df, g, dg, bk):
    total = F(0)
    for lo, hi in zip(bk[:-1], bk[1:]):
        a = local_poly(f, lo, hi, df)
        b = local_poly(g, lo, hi, dg)
        total += (hi - lo) * poly_int01(poly_mul(a, b))
    return total


def deriv_values(st, c, z, side, kmax):
    """[f^(k)(z^side) for k in 0..kmax] of component c of a polynomial state,
    derivatives with respect to u.  side = -1 (left) or +1 (right)."""
    bk = breaks(st.U)
    idx = bk.index(z)
    if side < 0:
        lo, hi = bk[idx - 1], bk[idx]
        t = F(1)
    else:
        lo, hi = bk[idx], bk[idx + 1]
        t = F(0)
    coef = local_poly(component_func(st, c), lo, hi, st.p)
    out = []
    h = hi - lo
    for k in range(kmax + 1):
        out.append(poly_eval(coef, t) / h ** k)
        coef = poly_der(coef)
    return out


# ---------------------------------------------------------------- representation

def represent(st, Ut, pt):
    """Control points of the polynomial state ``st`` on the target space
    (Ut, pt), or None when st is not in that space.  Exact."""
    if st.w is not None:
        raise OracleError("represent() takes polynomial states")
    Ut = [frac(u) for u in Ut]
    if (Ut[0], Ut[-1]) != st.limits:
        return None
    nt = len(Ut) - pt - 1
    dim = st.dim
    Q = [None] * nt
    for k in range(len(Ut) - 1):
        lo, hi = Ut[k], Ut[k + 1]
        if lo == hi:
            continue
        xs = interior_samples(lo, hi, pt + 1)
        A = [basis_all(Ut, pt, x)[k - pt: k + 1] for x in xs]
        B = [list(ceval(st, x)) for x in xs]
        X = linsolve(A, B)
        if X is None:
            raise OracleError("local basis singular")
        for j in range(pt + 1):
            i = k - pt + j
            val = tuple(X[j])
            if Q[i] is None:
                Q[i] = val
            elif Q[i] != val:
                return None
    if any(q is None for q in Q):
        raise OracleError("basis function without support")
    cand = State(Ut, pt, Q, None, st.scalar)
    if same_function(st, cand) is not None:
        return None
    return Q


def in_space(st, Ut, pt):
    return represent(st, Ut, pt) is not None


def represent_rational(st, Ut, pt):
    """Representation (P, w) of a rational state on (Ut, pt) through its
    homogeneous coordinates, or None."""
    num = represent(numerator_state(st), Ut, pt)
    den = represent(denominator_state(st), Ut, pt)
    if num is None or den is None:
        return None
    w = [d[0] for d in den]
    if any(x == 0 for x in w):
        return None
    P = [tuple(c / wi for c in pt_) for pt_, wi in zip(num, w)]
    return P, w


def refine_state(st, Ut, pt):
    """State of the same function on a refinement (must be in the space)."""
    if st.w is None:
        Q = represent(st, Ut, pt)
        if Q is None:
            raise OracleError("refine_state: target is not a refinement")
        return State(Ut, pt, Q, None, st.scalar)
    r = represent_rational(st, Ut, pt)
    if r is None:
        den = represent(denominator_state(st), Ut, pt)
        if den is not None and represent(numerator_state(st), Ut, pt) is not None and any(d[0] == 0 for d in den):
            raise ZeroControlWeight()
        raise OracleError("refine_state: target is not a refinement")
    return State(Ut, pt, r[0], r[1], st.scalar)


def boehm_insert(st, z):
    """Textbook single knot insertion (The NURBS Book A5.1) on homogeneous
    coordinates.  z must be interior with mult < p+1... (mult <= p)."""
    U, p = st.U, st.p
    z = frac(z)
    k = span_index(U, z)
    s = mult(U, z)
    n = st.n
    if st.w is None:
        H = [pt + (F(1),) for pt in st.P]
    else:
        H = [tuple(wi * c for c in pt) + (wi,) for pt, wi in zip(st.P, st.w)]
    Q = []
    for i in range(n + 1):
        if i <= k - p:
            Q.append(H[i])
        elif i >= k - s + 1:
            Q.append(H[i - 1])
        else:
            a = (z - U[i]) / (U[i + p] - U[i])
            Q.append(tuple(a * x + (1 - a) * y for x, y in zip(H[i], H[i - 1])))
    Unew = U[: k + 1] + [z] + U[k + 1:]
    if st.w is None:
        return State(Unew, p, [h[:-1] for h in Q], None, st.scalar)
    w = [h[-1] for h in Q]
    P = [tuple(c / h[-1] for c in h[:-1]) for h in Q]
    return State(Unew, p, P, w, st.scalar)


def elevated_vector(U, p, t):
    out = []
    for z in breaks(U):
        out += [z] * (mult(U, z) + t)
    return out


def minimal_form(st):
    """(Umin, pmin, Q) of a polynomial state: smallest degree and smallest
    knot multiplicities that represent it exactly."""
    if st.w is not None:
        raise OracleError("minimal_form is for polynomial states")
    bk = breaks(st.U)
    # smallest degree: max degree of all pieces / components
    pmin = 0
    for lo, hi in zip(bk[:-1], bk[1:]):
        for c in range(st.dim):
            d = poly_degree(local_poly(component_func(st, c), lo, hi, st.p))
            pmin = max(pmin, d)
    U = [bk[0]] * (pmin + 1)
    for z in bk[1:-1]:
        # continuity order at z
        order = pmin  # all derivatives up to pmin continuous -> no knot
        for c in range(st.dim):
            L = deriv_values(st, c, z, -1, pmin)
            R = deriv_values(st, c, z, +1, pmin)
            k = 0
            while k <= pmin and L[k] == R[k]:
                k += 1
            order = min(order, k - 1)
        m = pmin - order
        U += [z] * m
    U += [bk[-1]] * (pmin + 1)
    Q = represent(st, U, pmin)
    if Q is None:
        raise OracleError("minimal_form: representation failed")
    return U, pmin, Q


# ---------------------------------------------------------------- knot vector algebra models

def union_model(U, p, V, q):
    d = max(p, q)
    out = []
    for z in union_breaks(U, V):
        mu, mv = mult(U, z), mult(V, z)
        cands = []
        if mu:
            cands.append(mu + d - p)
        if mv:
            cands.append(mv + d - q)
        out += [z] * max(cands)
    return out, d


def intersection_model(U, V):
    out = []
    for z in union_breaks(U, V):
        out += [z] * min(mult(U, z), mult(V, z))
    return out


# ---------------------------------------------------------------- geometry (C19 / C20)

def dot(a, b):
    return sum(x * y for x, y in zip(a, b))


def sub(a, b):
    return tuple(x - y for x, y in zip(a, b))


def point_segment_dist2(P, A, B):
    """Exact squared distance of P to segment AB and the parameter s in [0,1]."""
    d = sub(B, A)
    dd = dot(d, d)
    if dd == 0:
        return dot(sub(P, A), sub(P, A)), F(0)
    s = dot(sub(P, A), d) / dd
    s = max(F(0), min(F(1), s))
    C = tuple(a + s * x for a, x in zip(A, d))
    return dot(sub(P, C), sub(P, C)), s


def cross2(a, b):
    return a[0] * b[1] - a[1] * b[0]


def segment_intersection(A, B, C, D):
    """Classify the intersection of planar segments AB and CD exactly.
    Returns (kind, data): ('cross', (s, t)) proper or endpoint crossing of
    non-parallel segments with parameters s on AB and t on CD in [0,1];
    ('parallel-overlap', None); ('disjoint', dist2)."""
    r, s_ = sub(B, A), sub(D, C)
    den = cross2(r, s_)
    if den != 0:
        ac = sub(C, A)
        s = cross2(ac, s_) / den
        t = cross2(ac, r) / den
        if 0 <= s <= 1 and 0 <= t <= 1:
            return "cross", (s, t)
    else:
        # parallel: overlapping collinear?
        if cross2(sub(C, A), r) == 0:
            rr = dot(r, r)
            t0 = dot(sub(C, A), r) / rr
            t1 = dot(sub(D, A), r) / rr
            lo, hi = min(t0, t1), max(t0, t1)
            if hi >= 0 and lo <= 1:
                return "parallel-overlap", None
    d2 = min(point_segment_dist2(A, C, D)[0], point_segment_dist2(B, C, D)[0],
             point_segment_dist2(C, A, B)[0], point_segment_dist2(D, A, B)[0])
    return "disjoint", d2


def restrict_state(st, lo, hi):
    """State of ``st`` restricted to [lo, hi] (lo < hi inside the interval):
    clamped at lo and hi, interior knots of st inside (lo, hi) kept.  Works on
    homogeneous coordinates for rational states."""
    lo, hi = frac(lo), frac(hi)
    p = st.p
    Ut = [lo] * (p + 1) + [u for u in st.U if lo < u < hi] + [hi] * (p + 1)
    if st.w is None:
        H = [pt + (F(1),) for pt in st.P]
    else:
        H = [tuple(wi * c for c in pt) + (wi,) for pt, wi in zip(st.P, st.w)]
    hom = State(st.U, p, H, None, False)
    nt = len(Ut) - p - 1
    Q = [None] * nt
    for k in range(len(Ut) - 1):
        a, b = Ut[k], Ut[k + 1]
        if a == b:
            continue
        xs = interior_samples(a, b, p + 1)
        A = [basis_all(Ut, p, x)[k - p: k + 1] for x in xs]
        B = [list(ceval(hom, x)) for x in xs]
        X = linsolve(A, B)
        if X is None:
            raise OracleError("local basis singular")
        for j in range(p + 1):
            i = k - p + j
            val = tuple(X[j])
            if Q[i] is None:
                Q[i] = val
            elif Q[i] != val:
                raise OracleError("restrict_state: inconsistent")
    if st.w is None:
        return State(Ut, p, [q[:-1] for q in Q], None, st.scalar)
    w = [q[-1] for q in Q]
    return State(Ut, p, [tuple(c / q[-1] for c in q[:-1]) for q in Q], w, st.scalar)


def same_function_on(A, B, lo, hi):
    """Same function on [lo, hi] (both defined there).  None or a witness."""
    rational = A.w is not None or B.w is not None
    m = (A.p + B.p + 1) if rational else (max(A.p, B.p) + 1)
    bk = [u for u in union_breaks(A.U, B.U) if lo < u < hi]
    bk = [lo] + bk + [hi]
    for a, b in zip(bk[:-1], bk[1:]):
        for u in interior_samples(a, b, m):
            x, y = ceval(A, u), ceval(B, u)
            if x != y:
                return (u, x, y)
    return None


def continuity_order(st, z):
    """Largest k <= p such that derivatives 0..k of a polynomial state are
    continuous at the interior breakpoint z (-1 when it jumps).  p means the
    two neighbouring pieces are one polynomial."""
    order = st.p
    for c in range(st.dim):
        L = deriv_values(st, c, z, -1, st.p)
        R = deriv_values(st, c, z, +1, st.p)
        k = 0
        while k <= st.p and L[k] == R[k]:
            k += 1
        order = min(order, k - 1)
    return order
